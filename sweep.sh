#!/bin/bash
# usage: sweep.sh <tier> <seed> [ids...] -- runs the checks one after the other, one summary line each
tier=$1; seed=$2; shift 2
ids=${@:-C01 C02 C03 C04 C05 C06 C07 C08 C09 C10 C11 C12 C13 C14 C15 C16 C17 C18 C19 C20}
for p in $ids; do
  out=$(VERIF_SEED=$seed "$(dirname "$0")"/check $p --tier $tier 2>&1); rc=$?
  echo "SWEEP seed=$seed $p rc=$rc :: $(echo "$out" | grep -E "^(VIOLATION|KNOWN-FINDING)" | head -3 | tr '\n' ' ' | cut -c1-300) $(echo "$out" | tail -1 | cut -c1-120)"
done
