// Package stats collects what a generated campaign actually covered and
// hands it to the driver (/verif/check), which merges the shards into
// /verif/evidence/<ID>.json.
//
// One Collector per property per process. Everything is counted by the
// machinery at run time; nothing here is a constant.
package stats

import (
	"encoding/json"
	"fmt"
	"hash/fnv"
	"os"
	"sort"
	"strconv"
	"sync"
)

// Finding is a violation that matched a known-finding signature (it does not
// fail the case) or an unmatched violation (it does).
type Finding struct {
	Signature string `json:"signature"`
	Detail    string `json:"detail"`
	Replay    string `json:"replay,omitempty"`
	Known     bool   `json:"known"`
}

type Collector struct {
	mu sync.Mutex

	Property   string            `json:"property"`
	Tier       string            `json:"tier"`
	Shard      int               `json:"shard"`
	Seed       uint64            `json:"seed"`
	Cases      int               `json:"cases"`
	Discarded  int               `json:"discarded"`
	Labels     map[string]int    `json:"labels"`
	NonTrivial []uint64          `json:"nontrivial_hashes"`
	Samples    []json.RawMessage `json:"samples"`
	Findings   []Finding         `json:"findings"`
	Counters   map[string]int64  `json:"counters"`
	Notes      []string          `json:"notes,omitempty"`
	Rule       string            `json:"rule"`
	Exhaustive bool              `json:"exhaustive,omitempty"`

	seen       map[uint64]struct{}
	maxSamples int
}

func New(property string) *Collector {
	shard, _ := strconv.Atoi(os.Getenv("VERIF_SHARD"))
	seed, _ := strconv.ParseUint(os.Getenv("VERIF_SEED"), 10, 64)
	tier := os.Getenv("VERIF_TIER")
	if tier == "" {
		tier = "quick"
	}
	return &Collector{
		Property:   property,
		Tier:       tier,
		Shard:      shard,
		Seed:       seed,
		Labels:     map[string]int{},
		Counters:   map[string]int64{},
		seen:       map[uint64]struct{}{},
		maxSamples: 3,
	}
}

// Hash64 hashes any printable description of a case.
func Hash64(parts ...any) uint64 {
	h := fnv.New64a()
	for _, p := range parts {
		fmt.Fprintf(h, "%v|", p)
	}
	return h.Sum64()
}

// Case records one generated case. hash identifies the case (distinctness);
// nontrivial is the verdict of the property's stated rule; sample is only
// called when the collector wants another sample.
func (c *Collector) Case(nontrivial bool, hash uint64, labels []string, sample func() any) {
	c.mu.Lock()
	defer c.mu.Unlock()
	c.Cases++
	for _, l := range labels {
		c.Labels[l]++
	}
	if !nontrivial {
		return
	}
	if _, ok := c.seen[hash]; ok {
		return
	}
	c.seen[hash] = struct{}{}
	c.NonTrivial = append(c.NonTrivial, hash)
	if len(c.Samples) < c.maxSamples && sample != nil {
		if b, err := json.Marshal(sample()); err == nil {
			c.Samples = append(c.Samples, b)
		}
	}
}

func (c *Collector) Discard(label string) {
	c.mu.Lock()
	defer c.mu.Unlock()
	c.Discarded++
	c.Labels["discarded:"+label]++
}

func (c *Collector) Label(l string) {
	c.mu.Lock()
	defer c.mu.Unlock()
	c.Labels[l]++
}

func (c *Collector) Count(name string, n int64) {
	c.mu.Lock()
	defer c.mu.Unlock()
	c.Counters[name] += n
}

func (c *Collector) Note(s string) {
	c.mu.Lock()
	defer c.mu.Unlock()
	if len(c.Notes) < 20 {
		c.Notes = append(c.Notes, s)
	}
}

func (c *Collector) AddFinding(f Finding) {
	c.mu.Lock()
	defer c.mu.Unlock()
	// keep the list bounded: one per signature plus a count
	c.Counters["finding:"+f.Signature]++
	for _, e := range c.Findings {
		if e.Signature == f.Signature && e.Known == f.Known {
			return
		}
	}
	c.Findings = append(c.Findings, f)
}

// Flush writes the collector to $VERIF_OUT (if set). Called from TestMain and
// also after every N cases so that a process death loses little.
func (c *Collector) Flush() {
	out := os.Getenv("VERIF_OUT")
	if out == "" {
		return
	}
	c.mu.Lock()
	defer c.mu.Unlock()
	sort.Slice(c.NonTrivial, func(i, j int) bool { return c.NonTrivial[i] < c.NonTrivial[j] })
	b, err := json.Marshal(c)
	if err != nil {
		fmt.Fprintf(os.Stderr, "stats: marshal: %v\n", err)
		return
	}
	tmp := out + ".tmp"
	if err := os.WriteFile(tmp, b, 0o644); err != nil {
		fmt.Fprintf(os.Stderr, "stats: write: %v\n", err)
		return
	}
	_ = os.Rename(tmp, out)
}

var (
	regMu sync.Mutex
	reg   = map[string]*Collector{}
)

// For returns the process-wide collector of a property.
func For(property string) *Collector {
	regMu.Lock()
	defer regMu.Unlock()
	c, ok := reg[property]
	if !ok {
		c = New(property)
		reg[property] = c
	}
	return c
}

// FlushAll flushes the (single) active collector. A shard process runs one
// property, so $VERIF_OUT names one file.
func FlushAll() {
	regMu.Lock()
	cs := make([]*Collector, 0, len(reg))
	for _, c := range reg {
		cs = append(cs, c)
	}
	regMu.Unlock()
	for _, c := range cs {
		c.Flush()
	}
}
