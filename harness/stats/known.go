package stats

import (
	"encoding/json"
	"os"
	"path/filepath"
	"sync"
)

// KnownFinding is one entry of /verif/known_findings.json. The file is
// committed and is never written at run time.
type KnownFinding struct {
	ID        string `json:"id"`
	Property  string `json:"property"`
	Status    string `json:"status"` // "known" | "fixed"
	Signature string `json:"signature"`
	Witness   string `json:"witness,omitempty"`
	Summary   string `json:"summary"`
	Commit    string `json:"commit,omitempty"`
}

var (
	knownOnce sync.Once
	known     []KnownFinding
)

func Root() string {
	if r := os.Getenv("VERIF_ROOT"); r != "" {
		return r
	}
	return "/verif"
}

func loadKnown() {
	b, err := os.ReadFile(filepath.Join(Root(), "known_findings.json"))
	if err != nil {
		return
	}
	var f struct {
		Findings []KnownFinding `json:"findings"`
	}
	if err := json.Unmarshal(b, &f); err == nil {
		known = f.Findings
	}
}

// IsKnown reports whether a violation with this signature is listed as a
// known (unrepaired) finding for the property. "fixed" entries suppress
// nothing.
func IsKnown(property, signature string) bool {
	knownOnce.Do(loadKnown)
	for _, k := range known {
		if k.Status == "known" && k.Signature == signature && (k.Property == property || k.Property == "*") {
			return true
		}
	}
	return false
}

// KnownSignatures lists the signatures with status "known" (any property).
func KnownSignatures() map[string]bool {
	knownOnce.Do(loadKnown)
	m := map[string]bool{}
	for _, k := range known {
		if k.Status == "known" {
			m[k.Signature] = true
		}
	}
	return m
}
