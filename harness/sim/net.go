package sim

import (
	"errors"
	"fmt"
	"sort"
	"sync"
	"sync/atomic"
	"time"

	"github.com/jmsadair/raft"
)

// LinkMode is the behaviour of one directed link.
type LinkMode int

const (
	Prompt LinkMode = iota // delivered after a tape delay <= maxDelay
	Held                   // parked until the schedule releases, drops or duplicates it
	Drop                   // lost
	NoReq                  // requests lost, replies pass promptly
)

func (m LinkMode) String() string {
	return [...]string{"prompt", "held", "drop", "noreq"}[m]
}

func ParseLinkMode(s string) LinkMode {
	switch s {
	case "held":
		return Held
	case "drop":
		return Drop
	case "noreq":
		return NoReq
	}
	return Prompt
}

var (
	errDropped     = errors.New("sim: message lost")
	errUnreachable = errors.New("sim: destination not reachable")
	errClosed      = errors.New("sim: transport is closed")
)

// Msg is one RPC in flight.
type Msg struct {
	Info  MsgInfo
	Phase int // 0 = request travelling src->dst, 1 = reply travelling dst->src
	ch    chan bool
	req   any
	arr   int
}

func (m *Msg) from() string {
	if m.Phase == 0 {
		return m.Info.Src
	}
	return m.Info.Dst
}
func (m *Msg) to() string {
	if m.Phase == 0 {
		return m.Info.Dst
	}
	return m.Info.Src
}

// Desc is the canonical descriptor used in scripts and samples.
func (m *Msg) Desc() string {
	ph := "req"
	if m.Phase == 1 {
		ph = "rep"
	}
	return fmt.Sprintf("%s %s->%s %s t%d p%d n%d", m.Info.Kind, m.Info.Src, m.Info.Dst, ph, m.Info.Term, m.Info.Prev, len(m.Info.Ents))
}

type Network struct {
	mu        sync.Mutex
	c         *Cluster
	links     map[[2]string]LinkMode
	endpoints map[string]*SimTransport
	held      []*Msg
	nextID    int
	arrivals  int
	linkSeq   map[[2]string]int
	tape      []byte
	minDelay  time.Duration
	maxDelay  time.Duration
	heldCap   int
	codec     raft.Transport

	Sent, Delivered, Dropped, Dups, CapDrops int
	inflight                                 atomic.Int64
}

func newNetwork(c *Cluster, tape []byte, maxDelay time.Duration) *Network {
	codec, err := raft.NewTransport("127.0.0.1:0")
	if err != nil {
		panic(err)
	}
	if len(tape) == 0 {
		tape = []byte{0}
	}
	return &Network{c: c, links: map[[2]string]LinkMode{}, endpoints: map[string]*SimTransport{},
		linkSeq: map[[2]string]int{}, tape: tape, minDelay: 100 * time.Microsecond, maxDelay: maxDelay, heldCap: 12, codec: codec}
}

func (n *Network) SetLink(a, b string, m LinkMode) {
	n.mu.Lock()
	defer n.mu.Unlock()
	if m == Prompt {
		delete(n.links, [2]string{a, b})
	} else {
		n.links[[2]string{a, b}] = m
	}
}

func (n *Network) Link(a, b string) LinkMode {
	n.mu.Lock()
	defer n.mu.Unlock()
	return n.links[[2]string{a, b}]
}

// NonPromptLinks lists links that are not prompt (for observation).
func (n *Network) NonPromptLinks() map[[2]string]LinkMode {
	n.mu.Lock()
	defer n.mu.Unlock()
	out := map[[2]string]LinkMode{}
	for k, v := range n.links {
		out[k] = v
	}
	return out
}

func (n *Network) delay(a, b string) time.Duration {
	// caller holds n.mu
	k := [2]string{a, b}
	i := n.linkSeq[k]
	n.linkSeq[k] = i + 1
	h := 0
	for _, ch := range a + ">" + b {
		h = h*31 + int(ch)
	}
	v := n.tape[(h+i*7)%len(n.tape)]
	d := n.minDelay + time.Duration(int64(n.maxDelay-n.minDelay)*int64(v)/255)
	// deliveries happen at even microseconds, state-machine delays at odd nanoseconds
	return d.Truncate(2 * time.Microsecond)
}

// Held returns the parked messages in canonical order.
func (n *Network) Held() []*Msg {
	n.mu.Lock()
	defer n.mu.Unlock()
	return n.heldSorted()
}

func (n *Network) heldSorted() []*Msg {
	out := append([]*Msg(nil), n.held...)
	sort.SliceStable(out, func(i, j int) bool {
		a, b := out[i], out[j]
		if a.Info.Src != b.Info.Src {
			return a.Info.Src < b.Info.Src
		}
		if a.Info.Dst != b.Info.Dst {
			return a.Info.Dst < b.Info.Dst
		}
		if a.Info.Kind != b.Info.Kind {
			return a.Info.Kind < b.Info.Kind
		}
		if a.Phase != b.Phase {
			return a.Phase < b.Phase
		}
		if a.Info.Term != b.Info.Term {
			return a.Info.Term < b.Info.Term
		}
		if a.Info.Prev != b.Info.Prev {
			return a.Info.Prev < b.Info.Prev
		}
		if len(a.Info.Ents) != len(b.Info.Ents) {
			return len(a.Info.Ents) < len(b.Info.Ents)
		}
		return a.arr < b.arr
	})
	return out
}

func (n *Network) removeHeld(m *Msg) bool {
	for i, h := range n.held {
		if h == m {
			n.held = append(n.held[:i], n.held[i+1:]...)
			return true
		}
	}
	return false
}

// Release lets a parked message continue (deliver=true) or loses it.
func (n *Network) Release(m *Msg, deliver bool) bool {
	n.mu.Lock()
	ok := n.removeHeld(m)
	n.mu.Unlock()
	if ok {
		m.ch <- deliver
	}
	return ok
}

// ReleaseAll releases every parked message (optionally only those on a link).
func (n *Network) ReleaseAll(deliver bool, filter func(*Msg) bool) int {
	n.mu.Lock()
	var rel []*Msg
	var keep []*Msg
	for _, m := range n.heldSorted() {
		if filter == nil || filter(m) {
			rel = append(rel, m)
		} else {
			keep = append(keep, m)
		}
	}
	n.held = keep
	n.mu.Unlock()
	for _, m := range rel {
		m.ch <- deliver
	}
	return len(rel)
}

// travel moves a message over one directed link according to the link's mode
// at this moment. Returns false if the message is lost.
func (n *Network) travel(m *Msg) bool {
	from, to := m.from(), m.to()
	n.mu.Lock()
	mode := n.links[[2]string{from, to}]
	if mode == NoReq {
		if m.Phase == 0 {
			mode = Drop
		} else {
			mode = Prompt
		}
	}
	switch mode {
	case Prompt:
		d := n.delay(from, to)
		n.mu.Unlock()
		time.Sleep(d)
		return true
	case Drop:
		d := n.delay(from, to)
		n.Dropped++
		n.mu.Unlock()
		n.c.rec.Add(Event{Kind: "drop", Msg: cloneInfo(&m.Info), Note: phaseName(m.Phase)})
		time.Sleep(d)
		return false
	default: // Held
		n.arrivals++
		m.arr = n.arrivals
		m.ch = make(chan bool, 1)
		// bound the parked set per link: the oldest parked message on this link is lost
		cnt := 0
		var oldest *Msg
		for _, h := range n.held {
			if h.from() == from && h.to() == to {
				cnt++
				if oldest == nil || h.arr < oldest.arr {
					oldest = h
				}
			}
		}
		var victim *Msg
		if cnt >= n.heldCap && oldest != nil {
			n.removeHeld(oldest)
			victim = oldest
			n.CapDrops++
		}
		n.held = append(n.held, m)
		n.mu.Unlock()
		if victim != nil {
			victim.ch <- false
		}
		ok := <-m.ch
		if !ok {
			n.mu.Lock()
			n.Dropped++
			n.mu.Unlock()
			n.c.rec.Add(Event{Kind: "drop", Msg: cloneInfo(&m.Info), Note: phaseName(m.Phase)})
		}
		return ok
	}
}

func phaseName(p int) string {
	if p == 0 {
		return "request"
	}
	return "reply"
}

func cloneInfo(i *MsgInfo) *MsgInfo {
	c := *i
	return &c
}

func (n *Network) register(t *SimTransport) {
	n.mu.Lock()
	defer n.mu.Unlock()
	n.endpoints[t.address] = t
}

func (n *Network) unregister(t *SimTransport) {
	n.mu.Lock()
	defer n.mu.Unlock()
	if n.endpoints[t.address] == t {
		delete(n.endpoints, t.address)
	}
}

func (n *Network) endpoint(addr string) *SimTransport {
	n.mu.Lock()
	defer n.mu.Unlock()
	return n.endpoints[addr]
}

// rpc carries one request from src to the node at dstAddr and its reply back.
// It runs in the sender's goroutine, like a blocking RPC.
func (n *Network) rpc(src *SimTransport, dstAddr string, info MsgInfo, req any) (any, error) {
	n.inflight.Add(1)
	defer n.inflight.Add(-1)
	if src.inst.dead.Load() {
		// a crashed process sends nothing
		return nil, errClosed
	}
	n.mu.Lock()
	n.nextID++
	info.ID = n.nextID
	n.Sent++
	n.mu.Unlock()
	info.Src = src.node.ID
	info.Dst = dstAddr
	info.SrcInc = src.inst.inc
	m := &Msg{Info: info, req: req}
	m.Info.SentSeq = n.c.rec.Add(Event{Kind: "send", Node: src.node.ID, Inc: src.inst.inc, Msg: cloneInfo(&m.Info)})

	if !n.travel(m) {
		return nil, errDropped
	}
	resp, err := n.deliver(m, false)
	if err != nil {
		return nil, err
	}
	m.Phase = 1
	if !n.travel(m) {
		return nil, errDropped
	}
	if src.inst.dead.Load() {
		return nil, errClosed
	}
	n.c.rec.Add(Event{Kind: "reply", Node: src.node.ID, Inc: src.inst.inc, Msg: cloneInfo(&m.Info)})
	return resp, nil
}

// deliver runs the destination's handler on a private copy of the request.
func (n *Network) deliver(m *Msg, dup bool) (any, error) {
	dst := n.endpoint(m.Info.Dst)
	if dst == nil || dst.inst.dead.Load() {
		n.c.rec.Add(Event{Kind: "drop", Msg: cloneInfo(&m.Info), Note: "unreachable"})
		return nil, errUnreachable
	}
	n.mu.Lock()
	n.Delivered++
	n.mu.Unlock()
	info := cloneInfo(&m.Info)
	info.DstInc = dst.inst.inc
	info.Dup = dup
	m.Info.DstInc = dst.inst.inc
	n.c.rec.Add(Event{Kind: "deliver", Node: dst.node.ID, Inc: dst.inst.inc, Msg: info})
	resp, err := dst.invoke(m.Info.Kind, m.req, info)
	if dst.inst.dead.Load() {
		// the destination process died while (or before) handling it: nothing comes back
		return nil, errUnreachable
	}
	h := cloneInfo(info)
	if err != nil {
		h.Err = err.Error()
	}
	switch r := resp.(type) {
	case raft.AppendEntriesResponse:
		h.RTerm, h.Success, h.RIndex = r.Term, r.Success, r.Index
	case raft.RequestVoteResponse:
		h.RTerm, h.Success = r.Term, r.VoteGranted
	case raft.InstallSnapshotResponse:
		h.RTerm, h.Written = r.Term, r.BytesWritten
	}
	m.Info.RTerm, m.Info.Success, m.Info.RIndex, m.Info.Written, m.Info.Err = h.RTerm, h.Success, h.RIndex, h.Written, h.Err
	n.c.rec.Add(Event{Kind: "handled", Node: dst.node.ID, Inc: dst.inst.inc, Msg: h})
	if err != nil {
		return nil, err
	}
	return resp, nil
}

// Duplicate delivers a copy of a parked request now; its reply is discarded.
func (n *Network) Duplicate(m *Msg) {
	if m.Phase != 0 {
		return
	}
	n.mu.Lock()
	n.Dups++
	n.mu.Unlock()
	cp := &Msg{Info: m.Info, req: m.req}
	n.c.rec.Add(Event{Kind: "dup", Msg: cloneInfo(&m.Info)})
	n.c.goTracked(func() { _, _ = n.deliver(cp, true) })
}

// ---------------------------------------------------------------- transport

// SimTransport implements raft.Transport for one node instance.
type SimTransport struct {
	net     *Network
	node    *Node
	inst    *Instance
	address string
	mu      sync.Mutex
	running bool
	ae      func(*raft.AppendEntriesRequest, *raft.AppendEntriesResponse) error
	rv      func(*raft.RequestVoteRequest, *raft.RequestVoteResponse) error
	is      func(*raft.InstallSnapshotRequest, *raft.InstallSnapshotResponse) error
}

func (t *SimTransport) Run() error {
	t.mu.Lock()
	t.running = true
	t.mu.Unlock()
	t.net.register(t)
	return nil
}

func (t *SimTransport) Shutdown() error {
	t.mu.Lock()
	t.running = false
	t.mu.Unlock()
	t.net.unregister(t)
	return nil
}

func (t *SimTransport) isRunning() bool {
	t.mu.Lock()
	defer t.mu.Unlock()
	return t.running
}

func copyEntries(es []*raft.LogEntry) ([]*raft.LogEntry, []EntryInfo) {
	out := make([]*raft.LogEntry, len(es))
	infos := make([]EntryInfo, len(es))
	for i, e := range es {
		var d []byte
		if len(e.Data) > 0 {
			d = append([]byte(nil), e.Data...)
		}
		out[i] = &raft.LogEntry{Index: e.Index, Term: e.Term, Data: d, EntryType: e.EntryType}
		infos[i] = EntryInfo{I: e.Index, T: e.Term, Y: uint32(e.EntryType), H: entryHash(e.EntryType, e.Data)}
	}
	return out, infos
}

func copyBytes(b []byte) []byte {
	if len(b) == 0 {
		return nil
	}
	return append([]byte(nil), b...)
}

func (t *SimTransport) SendAppendEntries(address string, request raft.AppendEntriesRequest) (raft.AppendEntriesResponse, error) {
	if !t.isRunning() {
		return raft.AppendEntriesResponse{}, errClosed
	}
	ents, infos := copyEntries(request.Entries)
	req := request
	req.Entries = ents
	info := MsgInfo{Kind: "AE", Term: request.Term, From: request.LeaderID, Prev: request.PrevLogIndex, PrevT: request.PrevLogTerm,
		Ents: infos, Commit: request.LeaderCommit}
	r, err := t.net.rpc(t, address, info, &req)
	if err != nil {
		return raft.AppendEntriesResponse{}, err
	}
	return r.(raft.AppendEntriesResponse), nil
}

func (t *SimTransport) SendRequestVote(address string, request raft.RequestVoteRequest) (raft.RequestVoteResponse, error) {
	if !t.isRunning() {
		return raft.RequestVoteResponse{}, errClosed
	}
	req := request
	info := MsgInfo{Kind: "RV", Term: request.Term, From: request.CandidateID, Prev: request.LastLogIndex, PrevT: request.LastLogTerm, Prevote: request.Prevote}
	r, err := t.net.rpc(t, address, info, &req)
	if err != nil {
		return raft.RequestVoteResponse{}, err
	}
	return r.(raft.RequestVoteResponse), nil
}

func (t *SimTransport) SendInstallSnapshot(address string, request raft.InstallSnapshotRequest) (raft.InstallSnapshotResponse, error) {
	if !t.isRunning() {
		return raft.InstallSnapshotResponse{}, errClosed
	}
	req := request
	req.Bytes = copyBytes(request.Bytes)
	req.Configuration = copyBytes(request.Configuration)
	info := MsgInfo{Kind: "IS", Term: request.Term, From: request.LeaderID, Prev: request.LastIncludedIndex, PrevT: request.LastIncludedTerm,
		Offset: request.Offset, Len: len(request.Bytes), Done: request.Done, DataH: HashBytes(request.Bytes), ConfH: HashBytes(request.Configuration)}
	r, err := t.net.rpc(t, address, info, &req)
	if err != nil {
		return raft.InstallSnapshotResponse{}, err
	}
	return r.(raft.InstallSnapshotResponse), nil
}

// invoke runs the registered handler on a fresh copy of the request (the wire
// never shares memory between sender and receiver, nor between duplicates).
func (t *SimTransport) invoke(kind string, req any, info *MsgInfo) (any, error) {
	if !t.isRunning() {
		return nil, errUnreachable
	}
	t.inst.setCtx("rpc:" + kind)
	switch kind {
	case "AE":
		r := *(req.(*raft.AppendEntriesRequest))
		r.Entries, _ = copyEntries(r.Entries)
		var resp raft.AppendEntriesResponse
		if t.ae == nil {
			return nil, errUnreachable
		}
		err := t.ae(&r, &resp)
		return resp, err
	case "RV":
		r := *(req.(*raft.RequestVoteRequest))
		var resp raft.RequestVoteResponse
		if t.rv == nil {
			return nil, errUnreachable
		}
		err := t.rv(&r, &resp)
		return resp, err
	case "IS":
		// Snapshot directories are named after time.Now(); inside the bubble the clock stands still
		// while code runs. No two snapshot files of one node may be created at the same virtual
		// instant (impossible with a real clock), so an InstallSnapshot handler never starts at the
		// instant of the node's previous snapshot file or of another InstallSnapshot handler.
		for {
			now := time.Now().UnixNano()
			t.node.smu.Lock()
			clash := t.node.lastSnapNano == now || t.node.lastISNano == now
			if !clash {
				t.node.lastISNano = now
			}
			t.node.smu.Unlock()
			if !clash {
				break
			}
			time.Sleep(time.Microsecond)
		}
		r := *(req.(*raft.InstallSnapshotRequest))
		r.Bytes = copyBytes(r.Bytes)
		r.Configuration = copyBytes(r.Configuration)
		var resp raft.InstallSnapshotResponse
		if t.is == nil {
			return nil, errUnreachable
		}
		err := t.is(&r, &resp)
		return resp, err
	}
	return nil, fmt.Errorf("unknown kind %q", kind)
}

func (t *SimTransport) RegisterAppendEntriesHandler(h func(*raft.AppendEntriesRequest, *raft.AppendEntriesResponse) error) {
	t.ae = h
}
func (t *SimTransport) RegisterRequestVoteHandler(h func(*raft.RequestVoteRequest, *raft.RequestVoteResponse) error) {
	t.rv = h
}
func (t *SimTransport) RegsiterInstallSnapshotHandler(h func(*raft.InstallSnapshotRequest, *raft.InstallSnapshotResponse) error) {
	t.is = h
}
func (t *SimTransport) EncodeConfiguration(c *raft.Configuration) ([]byte, error) {
	return t.net.codec.EncodeConfiguration(c)
}
func (t *SimTransport) DecodeConfiguration(d []byte) (raft.Configuration, error) {
	return t.net.codec.DecodeConfiguration(d)
}
func (t *SimTransport) Address() string { return t.address }
