package sim

import (
	"fmt"
	"os"
	"testing"
	"testing/synctest"
	"time"

	"github.com/jmsadair/raft"
)

// SeedEntry is one log entry written to a node's storage before it starts.
type SeedEntry struct {
	Index uint64 `json:"i"`
	Term  uint64 `json:"t"`
	Type  uint32 `json:"y"` // 0 noop, 1 operation, 2 configuration
	Data  []byte `json:"d,omitempty"`
}

// Seed is persistent state written through the real storage API before
// NewRaft, i.e. what a restart would find on disk.
type Seed struct {
	Members  map[string]bool `json:"members"`  // id -> voter (configuration entry at index 1, term 1)
	Entries  []SeedEntry     `json:"entries"`  // entries from index 2 on (index 1 is the configuration)
	Boundary uint64          `json:"boundary"` // compact the log through this index and store a snapshot labelled with it (0 = none)
	Term     uint64          `json:"term"`
	Vote     string          `json:"vote"`
	Padding  int             `json:"padding,omitempty"`
}

func (c *Cluster) EncodeConf(members map[string]bool, index uint64) []byte {
	cf := &raft.Configuration{Members: map[string]string{}, IsVoter: map[string]bool{}, Index: index}
	for id, v := range members {
		cf.Members[id] = id
		cf.IsVoter[id] = v
	}
	b, err := c.net.codec.EncodeConfiguration(cf)
	if err != nil {
		panic(err)
	}
	return b
}

// OpData is the payload of a seeded operation entry (unique per index/term/branch).
func OpData(index, term uint64, branch int) []byte {
	return []byte(fmt.Sprintf("seed-%d-%d-%d", index, term, branch))
}

// SeedNode writes the seed into the node's directory with the real storage
// constructors (the same files a crashed node would leave behind).
func (c *Cluster) SeedNode(id string, s Seed) error {
	n := c.Nodes[id]
	if n == nil {
		n = c.addNode(id)
	}
	if err := os.MkdirAll(n.dir, 0o777); err != nil {
		return err
	}
	l, err := raft.NewLog(n.dir)
	if err != nil {
		return err
	}
	if err := l.Open(); err != nil {
		return err
	}
	if err := l.Replay(); err != nil {
		return err
	}
	ents := []*raft.LogEntry{raft.NewLogEntry(1, 1, c.EncodeConf(s.Members, 1), raft.ConfigurationEntry)}
	var items []LedgerItem
	for _, e := range s.Entries {
		ents = append(ents, raft.NewLogEntry(e.Index, e.Term, e.Data, raft.LogEntryType(e.Type)))
		if e.Type == 1 && e.Index <= s.Boundary {
			items = append(items, LedgerItem{Index: e.Index, Term: e.Term, H: HashBytes(e.Data)})
		}
	}
	if err := l.AppendEntries(ents); err != nil {
		return err
	}
	if s.Boundary > 0 {
		ss, err := raft.NewSnapshotStorage(n.dir)
		if err != nil {
			return err
		}
		var bt uint64
		for _, e := range ents {
			if e.Index == s.Boundary {
				bt = e.Term
			}
		}
		f, err := ss.NewSnapshotFile(s.Boundary, bt, c.EncodeConf(s.Members, 1))
		if err != nil {
			return err
		}
		if _, err := f.Write(EncodeLedger(items, s.Padding)); err != nil {
			return err
		}
		if err := f.Close(); err != nil {
			return err
		}
		if err := l.Compact(s.Boundary); err != nil {
			return err
		}
	}
	if err := l.Close(); err != nil {
		return err
	}
	if s.Term > 0 || s.Vote != "" {
		st, err := raft.NewStateStorage(n.dir)
		if err != nil {
			return err
		}
		if err := st.SetState(s.Term, s.Vote); err != nil {
			return err
		}
	}
	return nil
}

// Inject delivers a request to a running node as if it came from peer `from`
// (which does not exist as a process). It records send/deliver/handled like
// any other message. Blocks until the handler returns.
func (c *Cluster) Inject(from, to string, req any) (any, error) {
	var info MsgInfo
	var cp any
	switch r := req.(type) {
	case raft.AppendEntriesRequest:
		ents, infos := copyEntries(r.Entries)
		r.Entries = ents
		info = MsgInfo{Kind: "AE", Term: r.Term, From: r.LeaderID, Prev: r.PrevLogIndex, PrevT: r.PrevLogTerm, Ents: infos, Commit: r.LeaderCommit}
		cp = &r
	case raft.RequestVoteRequest:
		info = MsgInfo{Kind: "RV", Term: r.Term, From: r.CandidateID, Prev: r.LastLogIndex, PrevT: r.LastLogTerm, Prevote: r.Prevote}
		cp = &r
	case raft.InstallSnapshotRequest:
		r.Bytes = copyBytes(r.Bytes)
		r.Configuration = copyBytes(r.Configuration)
		info = MsgInfo{Kind: "IS", Term: r.Term, From: r.LeaderID, Prev: r.LastIncludedIndex, PrevT: r.LastIncludedTerm, Offset: r.Offset, Len: len(r.Bytes), Done: r.Done, DataH: HashBytes(r.Bytes), ConfH: HashBytes(r.Configuration)}
		cp = &r
	default:
		panic("Inject: unknown request type")
	}
	c.net.mu.Lock()
	c.net.nextID++
	info.ID = c.net.nextID
	c.net.mu.Unlock()
	info.Src, info.Dst = from, to
	m := &Msg{Info: info, req: cp}
	m.Info.SentSeq = c.rec.Add(Event{Kind: "send", Node: from, Msg: cloneInfo(&m.Info), Note: "injected"})
	return c.net.deliver(m, false)
}

// InjectAsync runs Inject in a tracked goroutine and returns a channel with
// the outcome (for handlers that may block, e.g. InstallSnapshot).
type InjectResult struct {
	Resp any
	Err  error
}

func (c *Cluster) InjectAsync(from, to string, req any) chan InjectResult {
	ch := make(chan InjectResult, 1)
	c.goTracked(func() {
		r, err := c.Inject(from, to, req)
		ch <- InjectResult{r, err}
	})
	return ch
}

// NodeDir returns the directory the next incarnation of the node runs on.
func (c *Cluster) NodeDir(id string) string {
	if n := c.Nodes[id]; n != nil {
		return n.dir
	}
	return ""
}

// LiveLog reads the node's current log through the wrapped real log
// (the node must be quiescent).
func (c *Cluster) LiveLog(id string) (first uint64, ents []EntryInfo, err error) {
	return c.readDiskLogAt(c.Nodes[id].dir)
}

func (c *Cluster) readDiskLogAt(dir string) (uint64, []EntryInfo, error) {
	ents, first, err := c.readDiskLog(dir)
	return first, ents, err
}

// RunNode runs body inside a bubble with an empty cluster (nothing started);
// used by engine E-NODE. The cluster is shut down when body returns.
func RunNode(t *testing.T, base string, h Header, oracles []Oracle, body func(c *Cluster)) *Result {
	var res *Result
	bubble(t, func() {
		c := NewCluster(h, base, oracles...)
		res = &Result{Cluster: c}
		defer func() {
			c.Shutdown()
			res.Cluster = nil
		}()
		journalReset()
		journal(map[string]any{"profile": "node", "header": h})
		body(c)
		c.Shutdown()
		res.Violations = c.rec.Finish()
		res.History = c.rec.History()
		res.Events = len(res.History)
		res.Labels = c.Labels
		res.Tainted = c.Tainted()
		res.StartErrs = c.StartErrors
	})
	return res
}

// Sleep advances virtual time and waits for quiescence (E-NODE).
func (c *Cluster) Sleep(d time.Duration) {
	time.Sleep(d)
	synctest.Wait()
	c.Observe()
}
