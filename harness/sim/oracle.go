package sim

import (
	"encoding/json"
	"fmt"
	"sort"
	"strings"
)

// Safety is the shared invariant monitor over a recorded history. Every
// violation names its home property; a check only fails on violations whose
// home property it owns, the rest are reported as incidental.
//
// It is a pure function of the event stream (see Judge).
type Safety struct {
	shadow map[string]*shadowLog
	// committed set C: index -> entry, first observed at seq
	committed    map[uint64]EntryInfo
	committedSeq map[uint64]int
	maxCommit    map[string]uint64 // per node: highest commit index ever reported

	// authoritative apply table A
	applied     map[uint64]ApplyInfo
	appliedSeq  map[uint64]int
	hashApplied map[uint64]uint64 // op hash -> index
	fsmLast     map[int]uint64    // per FSM instance: last applied index since last restore
	fsmFloor    map[int]uint64    // per FSM instance: last index covered by its last restore
	fsmSeq      map[int][]uint64  // per FSM instance: applied indices since last restore / start
	fsmRestored map[int]bool

	// elections
	leaderByTerm    map[uint64]string
	leaderSeq       map[uint64]int
	rpcLeaderByTerm map[uint64]string
	ledFirst        map[string]bool // "node/term" seen leading

	// votes
	votes     map[string]map[uint64]string // node -> term -> candidate
	persisted map[string][2]any            // node -> (term, vote) last persisted
	maxTerm   map[string]uint64
	termAtDel map[int]uint64        // msg id -> max term of dst seen before delivery
	lastAtDel map[int][2]uint64     // msg id -> voter's (lastTerm,lastIndex) at delivery
	sets      map[string][]setRec   // node -> term/vote writes
	delSeq    map[int]int           // msg id -> seq of its delivery
	rvReal    map[string]int        // node -> real RequestVote handlers in flight
	rvPre     map[string]int        // node -> prevote handlers in flight
	incStatus map[string]StatusInfo // "node/inc" -> last status (monotonicity inside an incarnation)

	// clients
	invokes           map[int]*Event
	acks              []ackRec // acknowledged writes in return order
	reads             []readRec
	okWrites          map[int]ClientInfo
	lastStatus        map[string]StatusInfo
	memberPending     map[int]*memberReq
	memberAwaitAppend map[string]int
	memberOK          []*Event

	// snapshots
	openRecv   map[string]*recvFile        // node -> snapshot file being received
	mixedFiles map[int]string              // file id -> description of the foreign chunk it accepted
	inflightIS map[string]map[int]*MsgInfo // node -> InstallSnapshot requests being handled
	localSnaps map[string]bool             // "index/term/len/hash" produced locally
	snapFiles  []*Event
	restores   []*Event

	// lease reads (C17)
	ld           int64 // lease duration in ns, from the header event
	replies      map[string][]replyRec
	confs        map[string]*ConfInfo
	confHist     map[string][]*ConfInfo
	confTimes    map[string][]confAt
	pendingLease []pendingLease
	maxTermAll   uint64
	committedBy  map[uint64]uint64 // index -> upper bound of the term in which it was committed
	tornEnts     map[string][]EntryInfo
	grants       map[string]map[string]bool // "candidate/term" -> voters whose granted real vote reached it
	pendingElect []electRec

	// config
	Static bool // static membership: voters fixed (enables C04's voter set from the disk event itself)

	viol     []Violation
	seen     map[string]bool
	poisoned bool
}

type recvFile struct {
	file        int
	index, term uint64
}

type confAt struct {
	vt     int64
	voters int
	conf   *ConfInfo
}

type electRec struct {
	node string
	term uint64
	seq  int
}

type memberReq struct {
	node      string
	term      uint64
	leader    bool
	invokeSeq int
	deadline  int64
	index     uint64 // index of the configuration entry it appended
	lost      bool   // the submitter was seen in another state or term afterwards
	committed bool   // the entry was seen committed at the submitter while it was still leader, before the deadline
	inc       int
	returned  bool   // the future has resolved ...
	outcome   string // ... with this outcome
	returnSeq int
	what      string
}

type replyRec struct {
	vt   int64
	from string
}

type setRec struct {
	seq  int
	term uint64
	vote string
}

type ackRec struct {
	seq    int
	result int
	index  uint64
	op     int
}

type readRec struct {
	invoke, ret int
	l           int
	kind        string
	op          int
}

type shadowLog struct {
	bi, bt uint64
	ents   []EntryInfo
	known  bool
}

func (s *shadowLog) last() (uint64, uint64) {
	if len(s.ents) == 0 {
		return s.bi, s.bt
	}
	e := s.ents[len(s.ents)-1]
	return e.I, e.T
}

func (s *shadowLog) at(i uint64) (EntryInfo, bool) {
	if i <= s.bi || i > s.bi+uint64(len(s.ents)) {
		return EntryInfo{}, false
	}
	return s.ents[i-s.bi-1], true
}

func NewSafety() *Safety {
	return &Safety{
		shadow: map[string]*shadowLog{}, committed: map[uint64]EntryInfo{}, committedSeq: map[uint64]int{}, maxCommit: map[string]uint64{},
		applied: map[uint64]ApplyInfo{}, appliedSeq: map[uint64]int{}, hashApplied: map[uint64]uint64{}, fsmLast: map[int]uint64{}, fsmFloor: map[int]uint64{},
		fsmSeq: map[int][]uint64{}, fsmRestored: map[int]bool{},
		leaderByTerm: map[uint64]string{}, leaderSeq: map[uint64]int{}, rpcLeaderByTerm: map[uint64]string{}, ledFirst: map[string]bool{},
		votes: map[string]map[uint64]string{}, persisted: map[string][2]any{}, maxTerm: map[string]uint64{}, termAtDel: map[int]uint64{}, lastAtDel: map[int][2]uint64{},
		sets: map[string][]setRec{}, delSeq: map[int]int{}, replies: map[string][]replyRec{}, confs: map[string]*ConfInfo{}, confHist: map[string][]*ConfInfo{}, confTimes: map[string][]confAt{}, tornEnts: map[string][]EntryInfo{}, committedBy: map[uint64]uint64{}, grants: map[string]map[string]bool{},
		rvReal: map[string]int{}, rvPre: map[string]int{}, incStatus: map[string]StatusInfo{},
		openRecv: map[string]*recvFile{}, mixedFiles: map[int]string{}, inflightIS: map[string]map[int]*MsgInfo{},
		lastStatus: map[string]StatusInfo{}, memberPending: map[int]*memberReq{}, memberAwaitAppend: map[string]int{},
		invokes: map[int]*Event{}, okWrites: map[int]ClientInfo{}, localSnaps: map[string]bool{}, seen: map[string]bool{},
	}
}

func (s *Safety) v(prop, sig, msg string, seqs ...int) {
	if s.poisoned {
		return // everything after a mixed snapshot file is a consequence of that (known) root cause
	}
	key := sig + "|" + msg
	if s.seen[key] {
		return
	}
	s.seen[key] = true
	s.viol = append(s.viol, Violation{Property: prop, Signature: sig, Msg: msg, Seqs: seqs})
}

func (s *Safety) take() []Violation {
	v := s.viol
	s.viol = nil
	return v
}

func (s *Safety) sh(node string) *shadowLog {
	l := s.shadow[node]
	if l == nil {
		l = &shadowLog{}
		s.shadow[node] = l
	}
	return l
}

func (s *Safety) noteTerm(node string, term uint64, seq int, what string) {
	if term < s.maxTerm[node] {
		s.v("C08", "C08/term-decreased", fmt.Sprintf("%s: term %d observed in %s after term %d", node, term, what, s.maxTerm[node]), seq)
		return
	}
	s.maxTerm[node] = term
	if term > s.maxTermAll {
		s.maxTermAll = term
	}
}

func (s *Safety) noteVote(node string, term uint64, cand string, seq int, what string) {
	if cand == "" {
		return
	}
	m := s.votes[node]
	if m == nil {
		m = map[uint64]string{}
		s.votes[node] = m
	}
	if old, ok := m[term]; ok && old != cand {
		s.v("C08", "C08/double-vote", fmt.Sprintf("%s voted for %s and for %s in term %d (%s)", node, old, cand, term, what), seq)
		return
	}
	m[term] = cand
}

// Committed exposes the committed set (for generators and other oracles).
func (s *Safety) Committed() map[uint64]EntryInfo { return s.committed }

func (s *Safety) On(e *Event) []Violation {
	switch e.Kind {
	case "storage":
		s.onStorage(e)
	case "status":
		s.onStatus(e)
	case "apply":
		s.onApply(e)
	case "restore":
		s.onRestore(e)
	case "send":
		s.onSend(e)
	case "deliver":
		m := e.Msg
		s.termAtDel[m.ID] = s.maxTerm[e.Node]
		s.delSeq[m.ID] = e.Seq
		if m.Kind == "IS" {
			if s.inflightIS[e.Node] == nil {
				s.inflightIS[e.Node] = map[int]*MsgInfo{}
			}
			s.inflightIS[e.Node][m.ID] = m
		}
		if m.Kind == "RV" {
			lt, li := s.lastOf(e.Node)
			s.lastAtDel[m.ID] = [2]uint64{lt, li}
			if m.Prevote {
				s.rvPre[e.Node]++
			} else {
				s.rvReal[e.Node]++
			}
		}
	case "handled":
		s.onHandled(e)
	case "header":
		var h Header
		if json.Unmarshal([]byte(e.Note), &h) == nil {
			s.ld = int64(h.LD) * 1e6
		}
	case "conf":
		s.confs[e.Node] = e.Conf
		s.confHist[e.Node] = append(s.confHist[e.Node], e.Conf)
		nv := 0
		for _, v := range e.Conf.Members {
			if v {
				nv++
			}
		}
		s.confTimes[e.Node] = append(s.confTimes[e.Node], confAt{e.VT, nv, e.Conf})
	case "reply":
		if e.Msg.Kind == "AE" || e.Msg.Kind == "IS" {
			s.replies[e.Node] = append(s.replies[e.Node], replyRec{e.VT, e.Msg.Dst})
		}
		if e.Msg.Kind == "RV" && !e.Msg.Prevote && e.Msg.Success {
			k := fmt.Sprintf("%s/%d", e.Node, e.Msg.Term)
			if s.grants[k] == nil {
				s.grants[k] = map[string]bool{}
			}
			s.grants[k][e.Msg.Dst] = true
		}
	case "api":
		a := e.Api
		if a.Panic != "" {
			s.v("C18", "C18/panic", fmt.Sprintf("%s(%s) on %s in state %s panicked: %s", a.Call, a.Args, e.Node, a.State, a.Panic), e.Seq)
		}
		if a.Bound > 0 && a.DurUs > a.Bound {
			s.v("C18", "C18/call-blocked", fmt.Sprintf("%s(%s) on %s in state %s took %dus of virtual time (bound %dus)", a.Call, a.Args, e.Node, a.State, a.DurUs, a.Bound), e.Seq)
		}
		if a.Call == "Future.Await(again)" && a.Err != "" {
			s.v("C18", "C18/await-not-idempotent", fmt.Sprintf("%s on %s: %s", a.Call, e.Node, a.Err), e.Seq)
		}
	case "invoke":
		s.invokes[e.Client.Op] = e
		if e.Client.Type == "add" || e.Client.Type == "remove" {
			st := s.lastStatus[e.Node]
			s.memberPending[e.Client.Op] = &memberReq{node: e.Node, term: st.Term, leader: st.State == "leader", invokeSeq: e.Seq, deadline: e.VT + e.Client.Timeout*1e6, inc: e.Inc}
			s.memberAwaitAppend[e.Node] = e.Client.Op
		}
	case "return":
		s.onReturn(e)
	case "disk":
		d := e.Disk
		if len(d.Configs) > 0 {
			// dynamic membership: the holders must be a strict majority of the voters of at least one
			// configuration some running node is in (non-voters and removed nodes never count)
			ok := false
			hold := map[string]bool{}
			for _, h := range d.Holders {
				hold[h] = true
			}
			for _, vs := range d.Configs {
				n := 0
				for _, v := range vs {
					if hold[v] {
						n++
					}
				}
				if n*2 > len(vs) {
					ok = true
				}
			}
			if !ok {
				s.v("C09", "C09/commit-without-voter-majority", fmt.Sprintf("index %d term %d (%s): on disk at %v, which is not a majority of the voters of any configuration in use %v", d.Index, d.Term, d.When, d.Holders, d.Configs), e.Seq)
			}
		} else if len(d.Holders)*2 <= len(d.Voters) {
			s.v("C04", "C04/ack-without-majority-on-disk", fmt.Sprintf("index %d term %d (%s): on disk at %v of voters %v", d.Index, d.Term, d.When, d.Holders, d.Voters), e.Seq)
		}
	case "snapfile":
		s.onSnapFile(e)
	case "action":
		s.logMatching(e.Seq)
		s.judgePendingLease()
	case "fault":
		if e.Fault.What == "crash" && e.Storage != nil && len(e.Storage.Ents) > 0 && strings.Contains(e.Fault.Arg, "torn tail") {
			s.tornEnts[e.Node] = e.Storage.Ents // the process died inside this append: a prefix of it may have reached the disk
		}
		if e.Fault.What == "start" {
			// a restart of the same instance also starts a new life: commit/applied index are volatile
			delete(s.incStatus, fmt.Sprintf("%s/%d", e.Node, e.Inc))
		}
	}
	return s.take()
}

func (s *Safety) lastOf(node string) (uint64, uint64) {
	l := s.sh(node)
	i, t := l.last()
	return t, i
}

func (s *Safety) onStorage(e *Event) {
	st := e.Storage
	if st.Err != "" && st.Op != "log.state" {
		return
	}
	l := s.sh(e.Node)
	switch st.Op {
	case "snap.new":
		if st.Ctx == "InstallSnapshot" {
			s.openRecv[e.Node] = &recvFile{file: st.File, index: st.Index, term: st.Term}
		}
		return
	case "snap.close", "snap.discard":
		if o := s.openRecv[e.Node]; o != nil && o.file == st.File {
			delete(s.openRecv, e.Node)
		}
		return
	case "snap.write":
		return
	case "log.append":
		if op, ok := s.memberAwaitAppend[e.Node]; ok && (st.Ctx == "AddServer" || st.Ctx == "RemoveServer") && len(st.Ents) == 1 {
			if m := s.memberPending[op]; m != nil && m.index == 0 {
				m.index = st.Ents[0].I
			}
			delete(s.memberAwaitAppend, e.Node)
		}
		for _, en := range st.Ents {
			li, _ := l.last()
			if en.I != li+1 {
				s.v("C06", "C06/non-consecutive-append", fmt.Sprintf("%s appended index %d after last index %d", e.Node, en.I, li), e.Seq)
				return
			}
			l.ents = append(l.ents, en)
		}
	case "log.truncate":
		if st.Index <= l.bi || st.Index > l.bi+uint64(len(l.ents)) {
			return
		}
		for j := st.Index; j <= l.bi+uint64(len(l.ents)); j++ {
			en, _ := l.at(j)
			if c, ok := s.committed[j]; ok && c.T == en.T && c.H == en.H {
				s.v("C06", "C06/truncated-committed-entry", fmt.Sprintf("%s truncated from %d; entry (%d,t%d) was committed (first seen committed at event %d)", e.Node, st.Index, j, en.T, s.committedSeq[j]), e.Seq)
				break
			}
			if j <= s.maxCommit[e.Node] {
				s.v("C06", "C06/truncated-below-own-commit", fmt.Sprintf("%s truncated from %d but had reported commit index %d", e.Node, st.Index, s.maxCommit[e.Node]), e.Seq)
				break
			}
		}
		l.ents = l.ents[:st.Index-l.bi-1]
	case "log.compact":
		en, ok := l.at(st.Index)
		if !ok {
			return
		}
		if st.Ctx == "restore" {
			// a restart completes an interrupted installation: the suffix may only be kept if the entry at
			// the snapshot's label is the snapshot's last entry - otherwise the log has nothing to do with
			// the snapshot (a deposed leader's tail) and the node would not be what a node with the full log is
			for k := len(s.snapFiles) - 1; k >= 0; k-- {
				if f := s.snapFiles[k]; f.Node == e.Node && f.Snap != nil && f.Snap.Index == st.Index {
					if f.Snap.Term != en.T {
						s.v("C11", "C11/restart-kept-conflicting-suffix", fmt.Sprintf("%s restarted over a snapshot labelled (%d,t%d) and kept its log from that index on although its own entry %d has term %d", e.Node, f.Snap.Index, f.Snap.Term, st.Index, en.T), e.Seq)
						l.ents = append([]EntryInfo(nil), l.ents[st.Index-l.bi:]...)
						l.bi, l.bt = st.Index, en.T
						return
					}
					break
				}
			}
		}
		// only applied, hence committed, entries are compacted away: remember them as committed
		// before they disappear from the stored log (status sampling may never have seen them)
		for j := l.bi + 1; j <= st.Index; j++ {
			ce, _ := l.at(j)
			if c, ok := s.committed[j]; ok {
				if c != ce {
					s.v("C01", "C01/committed-prefix-mismatch", fmt.Sprintf("index %d: %s compacts (t%d,ty%d,h%x) into a snapshot, but (t%d,ty%d,h%x) was committed earlier (event %d)", j, e.Node, ce.T, ce.Y, ce.H, c.T, c.Y, c.H, s.committedSeq[j]), s.committedSeq[j], e.Seq)
				}
			} else {
				s.committed[j] = ce
				s.committedSeq[j] = e.Seq
				s.committedBy[j] = s.maxTermAll
			}
		}
		l.ents = append([]EntryInfo(nil), l.ents[st.Index-l.bi:]...)
		l.bi, l.bt = st.Index, en.T
	case "log.discard":
		// installing a snapshot discards the whole log: no committed entry beyond the label may be lost
		for j := st.Index + 1; j <= l.bi+uint64(len(l.ents)); j++ {
			en, _ := l.at(j)
			if c, ok := s.committed[j]; ok && c.T == en.T && c.H == en.H {
				s.v("C11", "C11/discarded-committed-entry", fmt.Sprintf("%s discarded its log at (%d,%d) but held committed entry (%d,t%d) beyond it", e.Node, st.Index, st.Term, j, en.T), e.Seq)
				break
			}
		}
		l.bi, l.bt, l.ents = st.Index, st.Term, nil
	case "log.state":
		if st.Err != "" {
			return
		}
		// what the new incarnation recovered must be what the node had stored when it died
		if l.known {
			// every entry the node had stored must be recovered unchanged (extra entries cannot
			// occur: die() waits for in-flight storage calls)
			bad := ""
			want := l.ents
			if torn := s.tornEnts[e.Node]; torn != nil {
				// died inside an append: the entries of that call that were written completely are there, too
				if extra := len(st.Ents) - len(l.ents); extra > 0 && extra <= len(torn) {
					want = append(append([]EntryInfo(nil), l.ents...), torn[:extra]...)
				}
				delete(s.tornEnts, e.Node)
			}
			if st.Index != l.bi {
				bad = fmt.Sprintf("boundary %d, had %d", st.Index, l.bi)
			} else if len(st.Ents) != len(want) {
				bad = fmt.Sprintf("%d entries, had stored %d", len(st.Ents), len(l.ents))
			} else {
				for i := range st.Ents {
					if st.Ents[i] != want[i] {
						bad = fmt.Sprintf("entry %d differs", st.Ents[i].I)
						break
					}
				}
			}
			if bad != "" {
				s.v("C04", "C04/restart-log-differs", fmt.Sprintf("%s recovered a log that is not what it had stored when it stopped: %s", e.Node, bad), e.Seq)
			}
		}
		if st.Index != l.bi {
			l.bt = 0
		}
		l.bi = st.Index
		l.ents = append([]EntryInfo(nil), st.Ents...)
		l.known = true
	case "state.set":
		s.noteTerm(e.Node, st.Term, e.Seq, "a term/vote write")
		s.noteVote(e.Node, st.Term, st.Vote, e.Seq, "persisted vote")
		if st.Ctx == "RequestVote" && s.rvReal[e.Node] == 0 && s.rvPre[e.Node] > 0 {
			s.v("C08", "C08/prevote-changed-state", fmt.Sprintf("%s wrote term/vote (%d,%q) while handling only prevote requests", e.Node, st.Term, st.Vote), e.Seq)
		}
		s.persisted[e.Node] = [2]any{st.Term, st.Vote}
		s.sets[e.Node] = append(s.sets[e.Node], setRec{e.Seq, st.Term, st.Vote})
	case "state.get":
		if p, ok := s.persisted[e.Node]; ok && st.Err == "" {
			if p[0].(uint64) != st.Term || p[1].(string) != st.Vote {
				s.v("C08", "C08/restart-state-differs", fmt.Sprintf("%s recovered (term %d, vote %q) but had persisted (%d, %q)", e.Node, st.Term, st.Vote, p[0], p[1]), e.Seq)
			}
		}
		if st.Err == "" {
			s.noteTerm(e.Node, st.Term, e.Seq, "recovered state")
		}
	}
	l.known = true
}

func (s *Safety) onStatus(e *Event) {
	st := e.Status
	s.lastStatus[e.Node] = *st
	for op, m := range s.memberPending {
		if m.node != e.Node || m.lost || m.committed {
			continue
		}
		// The submitter appended the entry as leader of m.term. While it stays in that term (and is
		// the same process) nobody else can have told it that the entry is committed - there is one
		// leader per term - so "applied >= index in term m.term" means that it committed the entry
		// itself, as leader, whatever state it reports now (a leader that removes itself steps down
		// in the very moment it applies the entry). The future is answered when the entry is applied.
		if st.Term != m.term || e.Inc != m.inc {
			m.lost = true
			if m.returned {
				delete(s.memberPending, op)
			}
		} else if m.index > 0 && st.Applied >= m.index && (e.VT < m.deadline-5e6 || (m.returned && m.outcome != "timeout")) {
			// (a future that resolved with an error other than a timeout resolved when the node stepped
			// down; in the same term it cannot have committed anything after that)
			m.committed = true
			if m.returned {
				s.judgeMember(m)
			}
		}
	}
	s.noteTerm(e.Node, st.Term, e.Seq, "Status()")
	key := fmt.Sprintf("%s/%d", e.Node, e.Inc)
	if old, ok := s.incStatus[key]; ok {
		if st.Commit < old.Commit {
			s.v("C06", "C06/commit-decreased", fmt.Sprintf("%s commit index went from %d to %d", e.Node, old.Commit, st.Commit), e.Seq)
			s.v("C11", "C11/commit-decreased", fmt.Sprintf("%s commit index went from %d to %d", e.Node, old.Commit, st.Commit), e.Seq)
		}
		if st.Applied < old.Applied {
			s.v("C11", "C11/applied-decreased", fmt.Sprintf("%s last applied went from %d to %d", e.Node, old.Applied, st.Applied), e.Seq)
		}
	}
	s.incStatus[key] = *st
	if st.State == "leader" {
		if old, ok := s.leaderByTerm[st.Term]; ok && old != e.Node {
			s.v("C02", "C02/two-leaders-status", fmt.Sprintf("term %d: %s (event %d) and %s both reported leader state", st.Term, old, s.leaderSeq[st.Term], e.Node), s.leaderSeq[st.Term], e.Seq)
		} else if !ok {
			s.leaderByTerm[st.Term] = e.Node
			s.leaderSeq[st.Term] = e.Seq
			if r, ok := s.rpcLeaderByTerm[st.Term]; ok && r != e.Node {
				s.v("C02", "C02/two-leaders-rpc", fmt.Sprintf("term %d: %s reports leader state but requests named %s", st.Term, e.Node, r), e.Seq)
			}
		}
		s.leaderStarts(e.Node, st.Term, e.Seq)
	}
	// committed-prefix agreement
	l := s.sh(e.Node)
	if st.Commit > s.maxCommit[e.Node] {
		s.maxCommit[e.Node] = st.Commit
	}
	hi := st.Commit
	if li, _ := l.last(); hi > li {
		hi = li
	}
	for i := l.bi + 1; i <= hi; i++ {
		en, _ := l.at(i)
		if c, ok := s.committed[i]; ok {
			if c != en {
				s.v("C01", "C01/committed-prefix-mismatch", fmt.Sprintf("index %d: %s holds (t%d,ty%d,h%x) as committed, but (t%d,ty%d,h%x) was committed earlier (event %d)", i, e.Node, en.T, en.Y, en.H, c.T, c.Y, c.H, s.committedSeq[i]), s.committedSeq[i], e.Seq)
			}
		} else {
			s.committed[i] = en
			s.committedSeq[i] = e.Seq
			s.committedBy[i] = s.maxTermAll
		}
	}
}

// leaderStarts checks leader completeness the first time a node is seen
// leading a term.
func (s *Safety) leaderStarts(node string, term uint64, seq int) {
	key := fmt.Sprintf("%s/%d", node, term)
	if s.ledFirst[key] {
		return
	}
	s.ledFirst[key] = true
	s.pendingElect = append(s.pendingElect, electRec{node, term, seq})
	l := s.sh(node)
	idx := make([]uint64, 0, len(s.committed))
	for i := range s.committed {
		idx = append(idx, i)
	}
	sort.Slice(idx, func(a, b int) bool { return idx[a] < idx[b] })
	for _, i := range idx {
		c := s.committed[i]
		if i < l.bi {
			continue
		}
		// Leader Completeness speaks about leaders of *higher-numbered terms* than the one the entry was committed
		// in. A candidate of an older term may still collect its (old) votes after a newer term has committed
		// something - it leads a dead term and has no say. committedBy is an upper bound of the committing term
		// (the highest term anybody had reached when the commit was first observed).
		if term <= s.committedBy[i] {
			continue
		}
		if i == l.bi {
			if l.bt != 0 && l.bt != c.T {
				s.v("C07", "C07/leader-differs-on-committed", fmt.Sprintf("%s starts leading term %d with snapshot boundary (%d,t%d) but (%d,t%d) was committed", node, term, l.bi, l.bt, i, c.T), s.committedSeq[i], seq)
			}
			continue
		}
		en, ok := l.at(i)
		if !ok {
			li, lt := l.last()
			s.v("C07", "C07/leader-missing-committed", fmt.Sprintf("%s starts leading term %d with last entry (%d,t%d) but (%d,t%d) was committed at event %d", node, term, li, lt, i, c.T, s.committedSeq[i]), s.committedSeq[i], seq)
			return
		}
		if en.T != c.T || en.H != c.H {
			s.v("C07", "C07/leader-differs-on-committed", fmt.Sprintf("%s starts leading term %d holding (%d,t%d) but (%d,t%d) was committed at event %d", node, term, i, en.T, i, c.T, s.committedSeq[i]), s.committedSeq[i], seq)
			return
		}
	}
}

func (s *Safety) onSend(e *Event) {
	m := e.Msg
	if m.Kind != "AE" && m.Kind != "IS" {
		return
	}
	if old, ok := s.rpcLeaderByTerm[m.Term]; ok {
		if old != m.From {
			s.v("C02", "C02/two-leaders-rpc", fmt.Sprintf("term %d: requests name leader %s and leader %s", m.Term, old, m.From), e.Seq)
		}
	} else {
		s.rpcLeaderByTerm[m.Term] = m.From
		if l, ok := s.leaderByTerm[m.Term]; ok && l != m.From {
			s.v("C02", "C02/two-leaders-rpc", fmt.Sprintf("term %d: %s reported leader state but a request names %s", m.Term, l, m.From), e.Seq)
		}
	}
	if m.From == e.Node {
		s.leaderStarts(e.Node, m.Term, e.Seq)
	}
}

func (s *Safety) onHandled(e *Event) {
	m := e.Msg
	if m.Kind == "RV" {
		if m.Prevote {
			s.rvPre[e.Node]--
		} else {
			s.rvReal[e.Node]--
		}
	}
	if m.Err != "" {
		return
	}
	if m.Kind == "IS" {
		delete(s.inflightIS[e.Node], m.ID)
	}
	if m.Kind == "IS" && m.Written == m.Offset+int64(m.Len) && (m.Len > 0 || m.Done) {
		// the request was accepted into the snapshot file being received: it must belong to that snapshot
		if o := s.openRecv[e.Node]; o != nil && (o.index != m.Prev || o.term != m.PrevT) {
			s.mixedFiles[o.file] = fmt.Sprintf("request labelled (%d,t%d) offset %d len %d accepted into the file being received for snapshot (%d,t%d)", m.Prev, m.PrevT, m.Offset, m.Len, o.index, o.term)
		}
	}
	if base, ok := s.termAtDel[m.ID]; ok && m.RTerm < base && !m.Dup {
		s.v("C08", "C08/term-decreased", fmt.Sprintf("%s answered %s with term %d after term %d had been observed", e.Node, m.Kind, m.RTerm, base), e.Seq)
	}
	delete(s.termAtDel, m.ID)
	defer delete(s.delSeq, m.ID)
	if m.RTerm > s.maxTerm[e.Node] {
		s.maxTerm[e.Node] = m.RTerm
	}
	if m.Kind == "RV" && m.Success && !m.Prevote {
		s.noteVote(e.Node, m.RTerm, m.From, e.Seq, "granted RequestVote")
		// up-to-date restriction: candidate's log >= voter's log (at delivery or now)
		lt, li := s.lastOf(e.Node)
		at := s.lastAtDel[m.ID]
		older := func(vt, vi uint64) bool { return m.PrevT < vt || (m.PrevT == vt && m.Prev < vi) }
		if older(lt, li) && older(at[0], at[1]) {
			s.v("C08", "C08/vote-for-stale-log", fmt.Sprintf("%s (last entry (%d,t%d)) granted a vote to %s whose last entry is (%d,t%d)", e.Node, li, lt, m.From, m.Prev, m.PrevT), e.Seq)
		}
		// the vote must be on disk before the reply exists: a write of (term, candidate)
		// by this node while the request was being handled
		found := false
		sets := s.sets[e.Node]
		for k := len(sets) - 1; k >= 0 && sets[k].seq > s.delSeq[m.ID]; k-- {
			if sets[k].term == m.RTerm && sets[k].vote == m.From {
				found = true
				break
			}
		}
		if !found {
			s.v("C08", "C08/vote-not-persisted", fmt.Sprintf("%s granted a vote to %s in term %d without writing it to term/vote storage first (last persisted %v)", e.Node, m.From, m.RTerm, s.persisted[e.Node]), e.Seq)
		}
	}
	delete(s.lastAtDel, m.ID)
}

type pendingLease struct {
	node string
	vt   int64
	seq  int
}

// leaseFresh: did a voting member answer node within the lease duration before vt? The
// configurations the node held around that window count (as observed; one older observation and
// every later one are included because observations lag the change): a node that was the only
// voter of one of them renewed its lease on its own, legitimately, and a reply counts if its
// sender was a voter in any of them (the configuration may have changed since).
func (s *Safety) leaseFresh(node string, vt int64) bool {
	cts := s.confTimes[node]
	if len(cts) == 0 {
		return true
	}
	wasVoter := map[string]bool{}
	older := 0
	for k := len(cts) - 1; k >= 0; k-- {
		if cts[k].voters <= 1 {
			return true
		}
		for id, v := range cts[k].conf.Members {
			if v {
				wasVoter[id] = true
			}
		}
		if cts[k].vt <= vt-s.ld {
			if older++; older == 2 {
				break
			}
		}
	}
	rs := s.replies[node]
	for k := len(rs) - 1; k >= 0 && rs[k].vt > vt-s.ld; k-- {
		if rs[k].vt <= vt && wasVoter[rs[k].from] {
			return true
		}
	}
	return false
}

func (s *Safety) judgePendingLease() {
	for _, p := range s.pendingLease {
		if !s.leaseFresh(p.node, p.vt) {
			s.v("C17", "C17/lease-read-without-fresh-voter-contact", fmt.Sprintf("%s served a lease-based read at virtual time %dus although no voting member had answered it during the preceding lease duration (%dms)", p.node, p.vt/1000, s.ld/1e6), p.seq)
		}
	}
	s.pendingLease = nil
}

func (s *Safety) onApply(e *Event) {
	a := e.Apply
	if a.Read && a.RType == 2 && s.ld > 0 {
		// a lease-based read is being served: some voter must have answered this node within the
		// last lease duration (necessary for any correct lease). Configurations are observed at the
		// quiescence point after a step, i.e. after the applications that the step caused, so the
		// verdict is taken at the next action (or at the end of the case).
		if !s.leaseFresh(e.Node, e.VT) {
			s.pendingLease = append(s.pendingLease, pendingLease{e.Node, e.VT, e.Seq})
		}
	}
	if a.Read || a.Begin {
		return
	}
	if old, ok := s.applied[a.Index]; ok {
		if old.Term != a.Term || old.H != a.H {
			s.v("C01", "C01/apply-mismatch", fmt.Sprintf("index %d applied as (t%d,h%x) on %s but as (t%d,h%x) earlier (event %d)", a.Index, a.Term, a.H, e.Node, old.Term, old.H, s.appliedSeq[a.Index]), s.appliedSeq[a.Index], e.Seq)
		}
	} else {
		s.applied[a.Index] = *a
		s.appliedSeq[a.Index] = e.Seq
		if j, ok := s.hashApplied[a.H]; ok && j != a.Index && a.H != HashBytes(nil) {
			s.v("C03", "C03/applied-twice", fmt.Sprintf("operation h%x applied at index %d and at index %d", a.H, j, a.Index), e.Seq)
		}
		s.hashApplied[a.H] = a.Index
	}
	if c, ok := s.committed[a.Index]; ok {
		if c.T != a.Term || c.H != a.H || c.Y != 1 {
			s.v("C01", "C01/apply-vs-committed", fmt.Sprintf("index %d applied as (t%d,h%x) on %s but committed as (t%d,ty%d,h%x)", a.Index, a.Term, a.H, e.Node, c.T, c.Y, c.H), e.Seq)
		}
	} else {
		s.committed[a.Index] = EntryInfo{I: a.Index, T: a.Term, Y: 1, H: a.H}
		s.committedSeq[a.Index] = e.Seq
		s.committedBy[a.Index] = s.maxTermAll
	}
	if last, ok := s.fsmLast[a.FSM]; ok && a.Index <= last {
		s.v("C01", "C01/apply-order", fmt.Sprintf("state machine %d on %s was handed index %d after index %d", a.FSM, e.Node, a.Index, last), e.Seq)
	}
	if floor, ok := s.fsmFloor[a.FSM]; ok && a.Index <= floor {
		s.v("C10", "C10/applied-at-or-below-restored", fmt.Sprintf("state machine %d on %s restored through index %d was then handed index %d", a.FSM, e.Node, floor, a.Index), e.Seq)
	}
	s.fsmLast[a.FSM] = a.Index
	s.fsmSeq[a.FSM] = append(s.fsmSeq[a.FSM], a.Index)
}

func (s *Safety) onRestore(e *Event) {
	r := e.Restore
	if r.Begin {
		return
	}
	if e.Note != "" {
		s.v("C10", "C10/restore-undecodable", fmt.Sprintf("%s restored from an undecodable snapshot: %s", e.Node, e.Note), e.Seq)
		return
	}
	delete(s.fsmLast, r.FSM)
	s.fsmFloor[r.FSM] = r.Last
	s.restores = append(s.restores, e)
	// remember the sequence boundary for the skip check
	s.fsmSeq[r.FSM] = append(s.fsmSeq[r.FSM], 0, r.Last) // 0 marks a restore; next value is the restored last index
	s.fsmRestored[r.FSM] = true
}

func (s *Safety) onSnapFile(e *Event) {
	sn := e.Snap
	key0 := fmt.Sprintf("%d/%d/%d/%x", sn.Index, sn.Term, sn.Len, sn.H)
	why, mixed := s.mixedFiles[sn.File]
	if !mixed && sn.Origin == "received" && !s.localSnaps[key0] {
		// the request that closes the file is still being handled: it is the one whose end offset
		// equals the file size; if it carries another label, chunks were mixed
		for _, m := range s.inflightIS[e.Node] {
			if m.Done && m.Offset+int64(m.Len) == int64(sn.Len) && (m.Prev != sn.Index || m.PrevT != sn.Term) {
				why = fmt.Sprintf("the closing request labelled (%d,t%d) offset %d len %d was accepted into the file being received for snapshot (%d,t%d)", m.Prev, m.PrevT, m.Offset, m.Len, sn.Index, sn.Term)
				mixed = true
			}
		}
	}
	if mixed {
		// root cause known: chunks of different snapshots ended up in one file (its stored label no
		// longer describes its content). Reported under its own signature; no further checks on it.
		s.v("C11", "C11/mixed-snapshot-chunks", fmt.Sprintf("%s closed a received snapshot file labelled (%d,t%d) that holds bytes of another snapshot: %s", e.Node, sn.Index, sn.Term, why), e.Seq)
		s.v("C10", "C10/mixed-snapshot-chunks", fmt.Sprintf("%s closed a received snapshot file labelled (%d,t%d) that holds bytes of another snapshot: %s", e.Node, sn.Index, sn.Term, why), e.Seq)
		s.poisoned = true
		return
	}
	s.snapFiles = append(s.snapFiles, e)
	key := fmt.Sprintf("%d/%d/%d/%x", sn.Index, sn.Term, sn.Len, sn.H)
	if sn.Origin == "local" {
		s.localSnaps[key] = true
	} else if !s.localSnaps[key] {
		s.v("C11", "C11/installed-bytes-differ", fmt.Sprintf("%s installed a snapshot labelled (%d,t%d) of %d bytes (h%x) that no sender produced", e.Node, sn.Index, sn.Term, sn.Len, sn.H), e.Seq)
	}
	if sn.DecodeErr != "" {
		s.v("C10", "C10/snapshot-undecodable", fmt.Sprintf("%s closed a %s snapshot (%d,t%d) that does not decode: %s", e.Node, sn.Origin, sn.Index, sn.Term, sn.DecodeErr), e.Seq)
		return
	}
	if sn.LedgerLast > sn.Index {
		s.v("C10", "C10/snapshot-contains-later-op", fmt.Sprintf("%s %s snapshot labelled index %d contains the operation applied at index %d", e.Node, sn.Origin, sn.Index, sn.LedgerLast), e.Seq)
	}
	if c, ok := s.committed[sn.Index]; ok && c.T != sn.Term {
		s.v("C10", "C10/snapshot-label-term", fmt.Sprintf("%s snapshot labelled (%d,t%d) but index %d was committed in term %d", e.Node, sn.Index, sn.Term, sn.Index, c.T), e.Seq)
	}
}

func (s *Safety) judgeMember(m *memberReq) {
	if m.leader && m.committed && !m.lost && m.outcome != "ok" && m.outcome != "indeterminate" {
		s.v("C18", "C18/membership-future-not-resolved", fmt.Sprintf("%s submitted to leader %s appended configuration entry %d, which %s committed and applied itself as leader of term %d (before the future's timeout), yet the future resolved with %q", m.what, m.node, m.index, m.node, m.term, m.outcome), m.invokeSeq, m.returnSeq)
	}
}

func (s *Safety) onReturn(e *Event) {
	c := e.Client
	if m := s.memberPending[c.Op]; m != nil {
		m.returned, m.outcome, m.returnSeq, m.what = true, c.Outcome, e.Seq, fmt.Sprintf("%s(%s)", c.Type, c.Arg)
		if m.committed {
			s.judgeMember(m)
		}
		if m.committed || m.lost || m.index == 0 || c.Outcome == "ok" || c.Outcome == "indeterminate" {
			delete(s.memberPending, c.Op)
		}
		// otherwise the evidence may still arrive: the next Status() of the submitter decides
	}
	if c.Outcome != "ok" {
		return
	}
	switch c.Type {
	case "add", "remove":
		s.memberOK = append(s.memberOK, e)
	case "write":
		if c.RH != c.H {
			s.v("C03", "C03/future-wrong-bytes", fmt.Sprintf("op %d: future returned bytes h%x, submitted h%x", c.Op, c.RH, c.H), e.Seq)
		}
		a, ok := s.applied[c.Index]
		if !ok || a.H != c.H || a.Term != c.Term {
			s.v("C03", "C03/future-wrong-position", fmt.Sprintf("op %d: future reports position (%d,t%d) but that index was applied as %+v (present=%v)", c.Op, c.Index, c.Term, a, ok), e.Seq)
		}
		s.okWrites[c.Op] = *c
		s.acks = append(s.acks, ackRec{seq: e.Seq, result: c.Result, index: c.Index, op: c.Op})
	case "linread", "leaseread":
		prop, sig := "C05", "C05/stale-read"
		if c.Type == "leaseread" {
			prop, sig = "C17", "C17/stale-lease-read"
		}
		// every write acknowledged before the read was invoked must be reflected
		for _, a := range s.acks {
			if a.seq < c.InvokeSeq && a.result > c.Result {
				s.v(prop, sig, fmt.Sprintf("read op %d at %s (invoked at event %d) returned ledger length %d, but write op %d had been acknowledged at event %d with position %d", c.Op, c.Target, c.InvokeSeq, c.Result, a.op, a.seq, a.result), a.seq, c.InvokeSeq, e.Seq)
				break
			}
		}
		if c.Type == "linread" {
			for _, r := range s.reads {
				if r.kind == "linread" && r.ret < c.InvokeSeq && r.l > c.Result {
					s.v("C05", "C05/non-monotonic-read", fmt.Sprintf("read op %d returned length %d after read op %d had returned %d before it was invoked", c.Op, c.Result, r.op, r.l), r.ret, e.Seq)
					break
				}
			}
		}
		s.reads = append(s.reads, readRec{invoke: c.InvokeSeq, ret: e.Seq, l: c.Result, kind: c.Type, op: c.Op})
	}
}

// logMatching checks the Log Matching property pairwise on the shadow logs.
func (s *Safety) logMatching(seq int) {
	ids := make([]string, 0, len(s.shadow))
	for id := range s.shadow {
		ids = append(ids, id)
	}
	sort.Strings(ids)
	for x := 0; x < len(ids); x++ {
		for y := x + 1; y < len(ids); y++ {
			a, b := s.shadow[ids[x]], s.shadow[ids[y]]
			lo := a.bi
			if b.bi > lo {
				lo = b.bi
			}
			hi, _ := a.last()
			if bl, _ := b.last(); bl < hi {
				hi = bl
			}
			matched := false
			for i := hi; i > lo; i-- {
				ea, _ := a.at(i)
				eb, _ := b.at(i)
				if !matched {
					if ea.T == eb.T {
						matched = true
					} else {
						continue
					}
				}
				if ea != eb {
					s.v("C06", "C06/log-matching", fmt.Sprintf("%s and %s agree on (index,term) above index %d but differ at index %d: (t%d,ty%d,h%x) vs (t%d,ty%d,h%x)", ids[x], ids[y], i, i, ea.T, ea.Y, ea.H, eb.T, eb.Y, eb.H), seq)
					break
				}
			}
		}
	}
}

// Finish runs the end-of-history checks (those that need the complete
// authoritative order).
func (s *Safety) Finish() []Violation {
	s.logMatching(0)
	s.judgePendingLease()
	// every leader was elected by a strict majority of the voters of a configuration it was in
	// (itself plus the voters whose granted vote reached it); non-voters never count
	for _, el := range s.pendingElect {
		g := s.grants[fmt.Sprintf("%s/%d", el.node, el.term)]
		ok := len(s.confHist[el.node]) == 0
		for _, cf := range s.confHist[el.node] {
			voters, n := 0, 0
			for m, v := range cf.Members {
				if v {
					voters++
					if m == el.node || g[m] {
						n++
					}
				}
			}
			if voters > 0 && n*2 > voters {
				ok = true
			}
		}
		if !ok {
			var gs []string
			for m := range g {
				gs = append(gs, m)
			}
			sort.Strings(gs)
			s.v("C09", "C09/leader-without-voter-majority", fmt.Sprintf("%s led term %d with granted votes from %v, which together with itself is not a majority of the voters of any configuration it reported", el.node, el.term, gs), el.seq)
		}
	}
	// successful membership futures report a committed configuration that contains the change
	for _, inv := range s.invokes {
		_ = inv
	}
	for _, r := range s.memberOK {
		c := r.Client
		cf := c.Conf
		if cf == nil {
			continue
		}
		voter, member := cf.Members[c.Arg]
		switch c.Type {
		case "add":
			if !member || voter != c.Voter {
				s.v("C09", "C09/future-configuration-lacks-change", fmt.Sprintf("AddServer(%s, voter=%v) succeeded with configuration %v", c.Arg, c.Voter, cf.Members), r.Seq)
			}
		case "remove":
			if member {
				s.v("C09", "C09/future-configuration-lacks-change", fmt.Sprintf("RemoveServer(%s) succeeded with configuration %v", c.Arg, cf.Members), r.Seq)
			}
		}
		ce, ok := s.committed[cf.Index]
		if !ok || ce.Y != 2 {
			s.v("C09", "C09/future-reports-uncommitted-configuration", fmt.Sprintf("%s(%s) succeeded with the configuration of index %d, which was never observed committed", c.Type, c.Arg, cf.Index), r.Seq)
		}
	}
	order := make([]uint64, 0, len(s.applied))
	for i := range s.applied {
		order = append(order, i)
	}
	sort.Slice(order, func(a, b int) bool { return order[a] < order[b] })
	rank := map[uint64]int{}
	for k, i := range order {
		rank[i] = k + 1
	}
	// futures: the state machine's result is the position in the authoritative order
	for _, c := range s.okWrites {
		if r, ok := rank[c.Index]; ok && r != c.Result {
			s.v("C03", "C03/future-wrong-result", fmt.Sprintf("op %d acknowledged with result %d but index %d is operation number %d of the applied order", c.Op, c.Result, c.Index, r))
		}
	}
	// real-time order: an operation acknowledged before B was invoked precedes B
	type pos struct{ inv, idx uint64 }
	for _, inv := range s.invokes {
		if inv.Client.Type != "write" {
			continue
		}
		idx, ok := s.hashApplied[inv.Client.H]
		if !ok {
			continue
		}
		for _, a := range s.acks {
			if a.seq < inv.Seq && a.index >= idx {
				s.v("C03", "C03/real-time-order", fmt.Sprintf("op %d (invoked at event %d) was applied at index %d, not after op %d acknowledged at event %d with index %d", inv.Client.Op, inv.Seq, idx, a.op, a.seq, a.index), a.seq, inv.Seq)
				break
			}
		}
	}
	// no replica skips an operation: consecutive applications on one state machine are
	// consecutive in the authoritative order
	for fsm, seqs := range s.fsmSeq {
		prev := uint64(0)
		havePrev := !s.fsmRestored[fsm] || true
		for k := 0; k < len(seqs); k++ {
			if seqs[k] == 0 && k+1 < len(seqs) { // restore marker
				prev = seqs[k+1]
				k++
				havePrev = true
				continue
			}
			cur := seqs[k]
			if havePrev {
				for _, i := range order {
					if i > prev && i < cur {
						sig, prop := "C01/apply-skipped", "C01"
						s.v(prop, sig, fmt.Sprintf("state machine %d applied index %d right after index %d but index %d was applied elsewhere", fsm, cur, prev, i))
						break
					}
				}
			}
			prev = cur
		}
	}
	// snapshots are exact: the ledger in a snapshot labelled i is the applied order up to i
	for _, e := range s.snapFiles {
		sn := e.Snap
		// the configuration stored with the snapshot is the one committed at or before its label
		// (judged at the end of the history, when the committed set is as complete as it gets)
		var ci uint64
		for i, c := range s.committed {
			if c.Y == 2 && i <= sn.Index && i > ci {
				ci = i
			}
		}
		if ci > 0 && sn.Conf != "" && s.committed[ci].H != HashBytes([]byte("conf:"+sn.Conf)) {
			s.v("C10", "C10/snapshot-configuration", fmt.Sprintf("%s %s snapshot labelled index %d carries configuration %q, which is not the configuration committed at index %d", e.Node, sn.Origin, sn.Index, sn.Conf, ci), e.Seq)
		}
		if sn.DecodeErr != "" {
			continue
		}
		var want []uint64
		for _, i := range order {
			if i <= sn.Index {
				want = append(want, i)
			}
		}
		if !equalU64(want, sn.Ledger) {
			sig := "C10/snapshot-missing-op"
			if len(sn.Ledger) > len(want) {
				sig = "C10/snapshot-contains-later-op"
			}
			s.v("C10", sig, fmt.Sprintf("%s %s snapshot labelled index %d holds operations %v, the applied order up to %d is %v", e.Node, sn.Origin, sn.Index, clip(sn.Ledger), sn.Index, clip(want)), e.Seq)
		}
	}
	for _, e := range s.restores {
		if e.Snap == nil {
			continue
		}
		var want []uint64
		for _, i := range order {
			if i <= e.Restore.Last {
				want = append(want, i)
			}
		}
		if !equalU64(want, e.Snap.Ledger) {
			s.v("C10", "C10/restored-state-not-a-prefix", fmt.Sprintf("%s restored a state holding operations %v, the applied order up to %d is %v", e.Node, clip(e.Snap.Ledger), e.Restore.Last, clip(want)), e.Seq)
		}
	}
	return s.take()
}

func clip(v []uint64) []uint64 {
	if len(v) > 24 {
		return append(append([]uint64(nil), v[:12]...), v[len(v)-12:]...)
	}
	return v
}

func equalU64(a, b []uint64) bool {
	if len(a) != len(b) {
		return false
	}
	for i := range a {
		if a[i] != b[i] {
			return false
		}
	}
	return true
}
