package sim

import (
	"fmt"
	"os"
	"path/filepath"
	"sort"

	"github.com/jmsadair/raft"
)

// readDiskLog returns what a fresh process would recover from the log stored
// under dataDir: the directory is copied and the copy is opened with the real
// constructors, so the file format is never interpreted by the harness.
func (c *Cluster) readDiskLog(dataDir string) ([]EntryInfo, uint64, error) {
	c.mu.Lock()
	c.imgSeq++
	tmp := filepath.Join(c.Base, fmt.Sprintf("probe%d", c.imgSeq))
	c.mu.Unlock()
	defer os.RemoveAll(tmp)
	src := filepath.Join(dataDir, "log", "log.bin")
	b, err := os.ReadFile(src)
	if err != nil {
		if os.IsNotExist(err) {
			return nil, 0, nil
		}
		return nil, 0, err
	}
	if err := os.MkdirAll(filepath.Join(tmp, "log"), 0o777); err != nil {
		return nil, 0, err
	}
	if err := os.WriteFile(filepath.Join(tmp, "log", "log.bin"), b, 0o666); err != nil {
		return nil, 0, err
	}
	l, err := raft.NewLog(tmp)
	if err != nil {
		return nil, 0, err
	}
	if err := l.Open(); err != nil {
		return nil, 0, err
	}
	defer l.Close()
	if err := l.Replay(); err != nil {
		return nil, 0, err
	}
	last := l.LastIndex()
	first := last - uint64(l.Size())
	var out []EntryInfo
	for i := first + 1; i <= last; i++ {
		e, err := l.GetEntry(i)
		if err != nil {
			return nil, 0, err
		}
		out = append(out, EntryInfo{I: e.Index, T: e.Term, Y: uint32(e.EntryType), H: entryHash(e.EntryType, e.Data)})
	}
	return out, first, nil
}

// diskCheck reads every voter's log from disk (crashed nodes: their crash
// image; stopped nodes: their directory) and records who holds (index, term, h).
func (c *Cluster) diskCheck(index, term, h uint64, when string) {
	var voters, holders []string
	var configs [][]string
	if c.H.DynamicMembers {
		// every node that exists may hold the entry; the voter sets are those the running nodes report
		voters = append(voters, c.Order...)
		seen := map[string]bool{}
		for _, id := range c.Order {
			if r := c.Nodes[id].Raft(); r != nil {
				cf := r.Configuration()
				var vs []string
				for m, v := range cf.IsVoter {
					if v {
						vs = append(vs, m)
					}
				}
				sort.Strings(vs)
				if k := fmt.Sprint(vs); len(vs) > 0 && !seen[k] {
					seen[k] = true
					configs = append(configs, vs)
				}
			}
		}
	} else {
		for id := range c.conf {
			voters = append(voters, id)
		}
	}
	sort.Strings(voters)
	for _, id := range voters {
		n := c.Nodes[id]
		if n == nil {
			continue
		}
		ents, first, err := c.readDiskLog(n.dir)
		if err != nil {
			c.rec.Add(Event{Kind: "note", Node: id, Note: "disk read failed: " + err.Error()})
			continue
		}
		if index <= first && first > 0 {
			holders = append(holders, id) // compacted into a snapshot: the entry's effect is on disk
			continue
		}
		for _, e := range ents {
			if e.I == index {
				if e.T == term && e.H == h {
					holders = append(holders, id)
				}
				break
			}
		}
	}
	c.rec.Add(Event{Kind: "disk", Disk: &DiskInfo{Index: index, Term: term, H: h, Voters: voters, Holders: holders, When: when, Configs: configs}})
}
