package sim

import (
	"sort"

	"pgregory.net/rapid"
)

// Profile selects what a campaign generates (one per property family).
type Profile struct {
	Name         string
	Voters       [2]int
	NonVoters    [2]int // added through AddServer(…, false) in a fault-free prologue
	Phases       [2]int
	Patterns     []string // enabled patterns; repetition = weight
	Writes       bool
	LinReads     bool
	LeaseReads   bool
	Crashes      bool // kill at an arbitrary instant / at storage boundaries, restart
	Stops        bool // graceful stop + restart
	Membership   bool
	MemberRetry  bool   // a membership request may be repeated verbatim at the same node (a client retrying while the first is pending)
	MinorityDown bool   // some nodes that are down when the faults stop may stay down (a majority of voters runs)
	Snapshots    string // "" | "armed" | "threshold"
	FSMDelays    bool
	DiskCheck    bool
	BigPayload   bool
	MaxDelayUs   []int
	ETs          []int
	LDs          []int
	Timeouts     []int
	EpilogueET   int      // fault-free suffix length in election timeouts
	Prologue     bool     // wait for a first leader before the schedule starts
	BoundedNet   bool     // never hold messages (C17: delay bound is part of the property)
	Combos       [][3]int // if set: (ET ms, LD ms, max delay us) drawn together
}

// step is a lazily resolved action: it sees the current view when it is its turn.
type step func(g *Gen, v View) (Action, bool)

// Gen draws the schedule of one case.
type Gen struct {
	T          *rapid.T
	P          Profile
	C          *Cluster
	queue      []step
	phases     int
	client     int
	Pats       map[string]int
	sticky     *stickyState
	lastMember *Action // the previous AddServer request (Profile.MemberRetry)
}

func NewGen(t *rapid.T, p Profile, c *Cluster) *Gen {
	g := &Gen{T: t, P: p, C: c, Pats: map[string]int{}}
	g.phases = rapid.IntRange(p.Phases[0], p.Phases[1]).Draw(t, "phases")
	return g
}

// DrawHeader draws the case configuration.
func DrawHeader(t *rapid.T, p Profile) Header {
	h := Header{}
	h.Voters = rapid.IntRange(p.Voters[0], p.Voters[1]).Draw(t, "voters")
	if p.NonVoters[1] > 0 {
		h.NonVoters = rapid.IntRange(p.NonVoters[0], p.NonVoters[1]).Draw(t, "nonvoters")
	}
	ets := p.ETs
	if len(ets) == 0 {
		ets = []int{300, 150}
	}
	h.ET = rapid.SampledFrom(ets).Draw(t, "et")
	h.HB = h.ET / 6
	lds := p.LDs
	if len(lds) == 0 {
		lds = []int{100, 50}
	}
	h.LD = rapid.SampledFrom(lds).Draw(t, "ld")
	if h.LD >= h.ET {
		h.LD = h.ET / 3
	}
	h.TimerSeed = rapid.Int64Range(1, 1<<40).Draw(t, "timerSeed")
	h.Tape = rapid.SliceOfN(rapid.Byte(), 16, 16).Draw(t, "tape")
	mds := p.MaxDelayUs
	if len(mds) == 0 {
		mds = []int{400, 2000, 8000}
	}
	h.MaxDelayUs = rapid.SampledFrom(mds).Draw(t, "maxDelay")
	if p.FSMDelays && rapid.Bool().Draw(t, "slowFSM") {
		opts := []int64{0, 0, 1001, 300001, 5000001, 60000001}
		for i := range h.Delays {
			h.Delays[i] = rapid.SampledFrom(opts).Draw(t, "fsmDelay")
		}
	}
	switch p.Snapshots {
	case "threshold":
		h.SnapThresh = rapid.SampledFrom([]int{0, 2, 3, 5, 9}).Draw(t, "snapThresh")
	case "both":
		h.SnapThresh = rapid.SampledFrom([]int{0, 0, 3, 6}).Draw(t, "snapThresh")
	}
	if p.Snapshots != "" {
		pads := []int{0, 0, 1, 100, 32*1024 - 40, 32 * 1024, 40000, 70000}
		if p.BigPayload {
			pads = append(pads, 3*32*1024+5, 200000)
		}
		h.Padding = rapid.SampledFrom(pads).Draw(t, "padding")
	}
	h.DiskCheck = p.DiskCheck
	h.DynamicMembers = p.Membership
	if p.MinorityDown {
		h.KeepDown = rapid.SampledFrom([]int{0, 0, 1, 1, 2}).Draw(t, "keepDown")
	}
	if len(p.Combos) > 0 {
		c := rapid.SampledFrom(p.Combos).Draw(t, "combo")
		h.ET, h.LD, h.MaxDelayUs = c[0], c[1], c[2]
		h.HB = h.ET / 6
	}
	return h
}

// ---------------------------------------------------------------- selectors

func (g *Gen) running(v View) []string {
	var out []string
	for id := range v.Status {
		out = append(out, id)
	}
	sort.Strings(out)
	return out
}

func (g *Gen) pick(label string, ids []string) string {
	if len(ids) == 0 {
		return ""
	}
	return ids[rapid.IntRange(0, len(ids)-1).Draw(g.T, label)]
}

func (g *Gen) inState(v View, states ...string) []string {
	var out []string
	for _, id := range g.running(v) {
		for _, s := range states {
			if v.Status[id].State == s {
				out = append(out, id)
			}
		}
	}
	return out
}

func (g *Gen) anyNode(label string) string { return g.pick(label, g.C.Order) }

func (g *Gen) stoppedNodes() []string {
	var out []string
	for _, id := range g.C.Order {
		n := g.C.Nodes[id]
		if n.Stopped() && n.everStarted {
			out = append(out, id)
		}
	}
	return out
}

func (g *Gen) dur(label string, choices ...int64) int64 {
	return rapid.SampledFrom(choices).Draw(g.T, label)
}

func (g *Gen) etUs() int64 { return int64(g.C.H.ET) * 1000 }
func (g *Gen) hbUs() int64 { return int64(g.C.H.HB) * 1000 }

func (g *Gen) holdMode(label string) string {
	if g.P.BoundedNet {
		return "drop"
	}
	return rapid.SampledFrom([]string{"held", "drop", "held"}).Draw(g.T, label)
}

func (g *Gen) timeout() int {
	ts := g.P.Timeouts
	if len(ts) == 0 {
		ts = []int{50, 200, 500, 2000}
	}
	return rapid.SampledFrom(ts).Draw(g.T, "timeout")
}

func (g *Gen) nextClient() int {
	g.client++
	return 1 + g.client%6
}

// ---------------------------------------------------------------- steps

func lit(a Action) step {
	return func(g *Gen, v View) (Action, bool) { return a, true }
}

func advance(us int64) step {
	return lit(Action{Op: "advance", DurUs: us})
}

// submitAt submits at a node chosen by a selector at execution time.
func submitAt(sel string, kind string) step {
	return func(g *Gen, v View) (Action, bool) {
		var id string
		switch sel {
		case "leader":
			id = v.Leader()
		case "anyleader":
			id = g.pick("anyleader", g.inState(v, "leader"))
		case "any":
			id = g.anyNode("target")
		default:
			id = sel
		}
		if id == "" {
			id = g.anyNode("target")
		}
		return Action{Op: "submit", Node: id, Kind: kind, Client: g.nextClient(), Timeout: g.timeout()}, true
	}
}

// newestLeaderExcept picks the leader with the highest term other than x.
func newestLeaderExcept(v View, x string) string {
	best, bt := "", uint64(0)
	ids := make([]string, 0)
	for id := range v.Status {
		ids = append(ids, id)
	}
	sort.Strings(ids)
	for _, id := range ids {
		s := v.Status[id]
		if id != x && s.State == "leader" && (best == "" || s.Term > bt) {
			best, bt = id, s.Term
		}
	}
	return best
}

func (g *Gen) writeKind() string { return "write" }

func (g *Gen) readKinds() []string {
	var k []string
	if g.P.LinReads {
		k = append(k, "linread")
	}
	if g.P.LeaseReads {
		k = append(k, "leaseread")
	}
	return k
}

// ---------------------------------------------------------------- patterns

func (g *Gen) push(pat string, steps ...step) {
	g.Pats[pat]++
	for _, s := range steps {
		s := s
		g.queue = append(g.queue, func(g *Gen, v View) (Action, bool) {
			a, ok := s(g, v)
			a.Pat = pat
			return a, ok
		})
	}
}

func (g *Gen) expand(pat string, v View) {
	t := g.T
	et, hb := g.etUs(), g.hbUs()
	leader := v.Leader()
	if len(g.C.Order) < 2 {
		switch pat {
		case "P1", "P2", "P3", "P7", "P8", "P9", "P12":
			pat = "free" // these patterns need peers
		}
	}
	switch pat {
	case "free":
		n := rapid.IntRange(4, 30).Draw(t, "freeSteps")
		for i := 0; i < n; i++ {
			g.push("free", func(g *Gen, v View) (Action, bool) { return g.freeAction(v), true })
		}
	case "P1": // partial replication then leader isolation
		if leader == "" {
			g.push("P1", advance(et))
			return
		}
		fs := g.C.others(leader)
		keep := rapid.IntRange(0, len(fs)-1).Draw(t, "keep")
		var st []step
		for i, f := range fs {
			if i != keep || rapid.Bool().Draw(t, "dropAll") {
				st = append(st, lit(Action{Op: "link", Node: leader, Node2: f, Mode: "drop"}))
			}
		}
		k := rapid.IntRange(1, 4).Draw(t, "k")
		for i := 0; i < k; i++ {
			st = append(st, submitAt(leader, "write"))
		}
		st = append(st, advance(g.dur("d", 1000, 10000, hb)))
		st = append(st, lit(Action{Op: "isolate", Node: leader, Mode: g.holdMode("mode")}))
		st = append(st, advance(g.dur("d2", et, 2*et, 3*et)))
		st = append(st, submitAt("leader", "write"))
		st = append(st, advance(g.dur("d3", 10000, hb, et)))
		if rapid.Bool().Draw(t, "healAfter") {
			st = append(st, lit(Action{Op: "heal", Mode: rapid.SampledFrom([]string{"deliver", "drop"}).Draw(t, "healMode")}))
			st = append(st, advance(g.dur("d4", hb, et)))
		}
		g.push("P1", st...)
	case "P2": // deposed but unaware leader, old replies released first
		if leader == "" {
			g.push("P2", advance(et))
			return
		}
		mode := g.holdMode("mode")
		st := []step{
			lit(Action{Op: "isolate", Node: leader, Mode: mode, Dir: "in"}),
			advance(g.dur("d0", hb, 2*hb)),
			lit(Action{Op: "isolate", Node: leader, Mode: mode, Dir: "out"}),
			advance(g.dur("d1", 2*et, 3*et, 4*et)),
		}
		nw := rapid.IntRange(1, 3).Draw(t, "nw")
		for i := 0; i < nw; i++ {
			st = append(st, func(g *Gen, v View) (Action, bool) {
				id := newestLeaderExcept(v, leader)
				if id == "" {
					return Action{Op: "advance", DurUs: et}, true
				}
				return Action{Op: "submit", Node: id, Kind: "write", Client: g.nextClient(), Timeout: 2000}, true
			})
			st = append(st, advance(g.dur("dw", 20000, hb, 2*hb)))
		}
		for _, k := range g.readKinds() {
			st = append(st, lit(Action{Op: "submit", Node: leader, Kind: k, Client: 9, Timeout: 1000}))
		}
		st = append(st, lit(Action{Op: "submit", Node: leader, Kind: "write", Client: 9, Timeout: 300}))
		st = append(st, lit(Action{Op: "releaseto", Node: leader, K: rapid.IntRange(0, 6).Draw(t, "k"), Mode: "deliver"}))
		st = append(st, advance(g.dur("d2", 2000, 20000, hb)))
		st = append(st, lit(Action{Op: "releaseto", Node: leader, Mode: "deliver"}))
		st = append(st, advance(g.dur("d3", 2000, hb)))
		st = append(st, lit(Action{Op: "heal", Mode: "deliver"}))
		st = append(st, advance(g.dur("d4", hb, et)))
		g.push("P2", st...)
	case "P3": // flaky follower: times out, hears the leader again, late vote requests
		fs := g.inState(v, "follower")
		f := g.pick("f", fs)
		if f == "" {
			g.push("P3", advance(et))
			return
		}
		var st []step
		rounds := rapid.IntRange(1, 3).Draw(t, "rounds")
		for i := 0; i < rounds; i++ {
			st = append(st, lit(Action{Op: "isolate", Node: f, Mode: g.holdMode("mode"), Dir: rapid.SampledFrom([]string{"both", "in", "out"}).Draw(t, "dir")}))
			st = append(st, advance(g.dur("off", et, et+et/2, 2*et, 3*et)))
			st = append(st, lit(Action{Op: "reconnect", Node: f, Mode: rapid.SampledFrom([]string{"deliver", "drop"}).Draw(t, "rmode")}))
			st = append(st, advance(g.dur("on", 1000, hb, et/2, et-1000)))
		}
		g.push("P3", st...)
	case "P4": // dueling candidates: everybody isolated, healed at a drawn instant
		var st []step
		mode := g.holdMode("mode")
		for _, id := range g.C.Order {
			st = append(st, lit(Action{Op: "isolate", Node: id, Mode: mode, Dir: "out"}))
		}
		st = append(st, advance(g.dur("d", et, 2*et, 3*et)))
		st = append(st, lit(Action{Op: "heal", Mode: rapid.SampledFrom([]string{"deliver", "drop"}).Draw(t, "heal")}))
		st = append(st, advance(g.dur("d2", 1000, hb, et, 2*et)))
		g.push("P4", st...)
	case "P4b": // dueling candidates with scheduler-owned delivery of every vote message
		var st []step
		if leader != "" {
			st = append(st, lit(Action{Op: "isolate", Node: leader, Mode: "drop", Dir: rapid.SampledFrom([]string{"both", "out"}).Draw(t, "ldir")}))
		}
		for _, id := range g.C.Order {
			if id != leader {
				st = append(st, lit(Action{Op: "isolate", Node: id, Mode: "held", Dir: "out"}))
			}
		}
		st = append(st, advance(g.dur("d", 2*et+2000, 2*et+et/2)))
		rel := func(g *Gen, v View) (Action, bool) {
			held := g.C.net.Held()
			if len(held) == 0 {
				return Action{Op: "advance", DurUs: g.dur("idle", 1000, hb, et/2)}, true
			}
			i := rapid.IntRange(0, len(held)-1).Draw(g.T, "msg")
			return Action{Op: "release", Sel: i, Desc: held[i].Desc(), Mode: rapid.SampledFrom([]string{"deliver", "deliver", "deliver", "deliver", "deliver", "drop", "dup"}).Draw(g.T, "rel")}, true
		}
		rounds := rapid.IntRange(3, 10).Draw(t, "rounds")
		// voters may lose their memory between two vote requests: crash and immediate restart
		amnesia := g.P.Crashes && rapid.Bool().Draw(t, "amnesia")
		for r := 0; r < rounds; r++ {
			k := rapid.IntRange(1, 6).Draw(t, "k")
			for i := 0; i < k; i++ {
				st = append(st, rel)
			}
			if amnesia && rapid.IntRange(0, 2).Draw(t, "forget") == 0 {
				id := g.anyNode("amnesiac")
				st = append(st, lit(Action{Op: "crash", Node: id}), lit(Action{Op: "restart", Node: id}))
				// its links are as before: what it sends stays with the scheduler
				st = append(st, lit(Action{Op: "isolate", Node: id, Mode: "held", Dir: "out"}))
			}
			st = append(st, advance(g.dur("gap", 200, 1000, 5000, hb, et/2, et+1000)))
		}
		st = append(st, lit(Action{Op: "heal", Mode: rapid.SampledFrom([]string{"deliver", "drop"}).Draw(t, "heal")}), advance(g.dur("d2", hb, et)))
		g.push("P4b", st...)
	case "P5": // isolate a node the moment it is observed in a given state
		want := rapid.SampledFrom([]string{"candidate", "precandidate", "leader", "candidate"}).Draw(t, "state")
		mode := g.holdMode("mode")
		dir := rapid.SampledFrom([]string{"both", "in", "out"}).Draw(t, "dir")
		d := g.dur("d", hb, et, 2*et)
		tries := 0
		var watch step
		watch = func(g *Gen, v View) (Action, bool) {
			ids := g.inState(v, want)
			if len(ids) == 0 {
				tries++
				if tries < 12 {
					g.queue = append([]step{watch}, g.queue...)
				}
				return Action{Op: "advance", DurUs: et / 6, Pat: "P5"}, true
			}
			g.queue = append([]step{advance(d)}, g.queue...)
			return Action{Op: "isolate", Node: ids[0], Mode: mode, Dir: dir, Pat: "P5"}, true
		}
		if want != "leader" {
			// provoke elections: cut the leader off briefly
			if leader != "" {
				g.push("P5", lit(Action{Op: "isolate", Node: leader, Mode: "drop", Dir: "out"}))
			}
		}
		g.push("P5", watch)
	case "P6": // crash at a storage boundary, restart later
		id := g.pick("victim", g.running(v))
		if id == "" {
			return
		}
		arm := Action{Op: "armcrash", Node: id, K: rapid.IntRange(1, 8).Draw(t, "k"), Before: rapid.Bool().Draw(t, "before")}
		twice := false
		if rapid.IntRange(0, 2).Draw(t, "torn") == 0 {
			// the kill falls inside a log append (if the armed operation is one): torn tail; such a node is restarted
			// twice, with appends in between (what a repair leaves behind shows at the *next* restart)
			arm.Sel = rapid.IntRange(1, 500).Draw(t, "cut")
			twice = true
		}
		st := []step{lit(arm)}
		st = append(st, submitAt("leader", "write"), submitAt("leader", "write"), advance(g.dur("d", hb, et, 2*et)))
		if twice {
			st = append(st, lit(Action{Op: "restart", Node: id}), advance(g.dur("dt", et, 2*et)), submitAt("leader", "write"), submitAt("leader", "write"), advance(g.dur("dt2", 2*hb, et)),
				lit(Action{Op: rapid.SampledFrom([]string{"stop", "crash"}).Draw(t, "again"), Node: id}), advance(g.dur("dt3", hb, et)))
		}
		if rapid.Bool().Draw(t, "provoke") {
			st = append(st, lit(Action{Op: "isolate", Node: id, Mode: "drop", Dir: "in"}), advance(2*et), lit(Action{Op: "reconnect", Node: id, Mode: "drop"}), advance(et))
		}
		st = append(st, lit(Action{Op: "restart", Node: id}), advance(g.dur("d2", hb, et)))
		g.push("P6", st...)
	case "P7": // lagging follower across a snapshot
		if leader == "" {
			g.push("P7", advance(et))
			return
		}
		f := g.pick("f", g.C.others(leader))
		st := []step{lit(Action{Op: "isolate", Node: f, Mode: g.holdMode("mode")})}
		n := rapid.IntRange(2, 6).Draw(t, "n")
		for i := 0; i < n; i++ {
			st = append(st, submitAt("leader", "write"), advance(g.dur("d", 5000, hb)))
		}
		st = append(st, func(g *Gen, v View) (Action, bool) {
			l := v.Leader()
			if l == "" {
				l = leader
			}
			return Action{Op: "armsnap", Node: l}, true
		})
		st = append(st, submitAt("leader", "write"), advance(g.dur("d2", hb, 2*hb)))
		st = append(st, submitAt("leader", "write"), advance(g.dur("d3", 5000, hb)))
		st = append(st, lit(Action{Op: "reconnect", Node: f, Mode: rapid.SampledFrom([]string{"deliver", "drop"}).Draw(t, "rmode")}))
		if rapid.Bool().Draw(t, "leaderChange") {
			st = append(st, advance(g.dur("d4", 1000, 5000, hb)), lit(Action{Op: "isolate", Node: leader, Mode: "drop"}), advance(2*et), lit(Action{Op: "reconnect", Node: leader, Mode: "drop"}))
		}
		if rapid.Bool().Draw(t, "moreSnap") {
			st = append(st, func(g *Gen, v View) (Action, bool) {
				return Action{Op: "armsnap", Node: g.anyNode("snapnode")}, true
			}, submitAt("leader", "write"))
		}
		st = append(st, advance(g.dur("d5", hb, et, 2*et)))
		g.push("P7", st...)
	case "P8": // late replies across terms: replies to a leader held across its deposition and re-election
		if leader == "" {
			g.push("P8", advance(et))
			return
		}
		var st []step
		others := g.C.others(leader)
		for _, o := range others {
			st = append(st, lit(Action{Op: "link", Node: o, Node2: leader, Mode: "held"}))
		}
		st = append(st, submitAt(leader, "write"), advance(g.dur("d", hb, 2*hb)))
		// depose: the leader's requests are lost, the others elect someone
		st = append(st, lit(Action{Op: "isolate", Node: leader, Mode: "drop", Dir: "out"}), advance(g.dur("d1", 2*et, 3*et)))
		st = append(st, submitAt("leader", "write"), advance(hb))
		// let the old leader win again: the others may not request votes
		for _, o := range others {
			for _, p := range g.C.Order {
				if p != o {
					st = append(st, lit(Action{Op: "link", Node: o, Node2: p, Mode: "noreq"}))
				}
			}
		}
		for _, o := range others {
			st = append(st, lit(Action{Op: "link", Node: leader, Node2: o, Mode: "prompt"}))
		}
		st = append(st, advance(g.dur("d2", 3*et, 5*et)))
		// everything prompt again except the parked replies, which are released now
		st = append(st, lit(Action{Op: "releaseto", Node: leader, Mode: "deliver"}), advance(g.dur("d3", 1000, hb)))
		st = append(st, submitAt("leader", "write"), advance(hb))
		st = append(st, lit(Action{Op: "heal", Mode: "deliver"}), advance(g.dur("d4", hb, et)))
		g.push("P8", st...)
	case "P9": // the leader is left with non-voters only
		if leader == "" {
			g.push("P9", advance(et))
			return
		}
		set := []string{leader}
		var vs []string
		if cf := v.Conf[leader]; cf != nil {
			for id, voter := range cf.Members {
				if !voter {
					set = append(set, id)
				} else if id != leader {
					vs = append(vs, id)
				}
			}
		}
		// ... and possibly with some voters that are too few to confirm it (one fewer may stay if the
		// leader is a voter itself; the draw does not know, so sometimes the leader keeps its quorum)
		sort.Strings(vs)
		if len(vs) >= 2 && rapid.Bool().Draw(t, "withVoters") {
			k := rapid.IntRange(1, (len(vs)+1)/2).Draw(t, "kv")
			for i := 0; i < k && len(vs) > 0; i++ {
				j := rapid.IntRange(0, len(vs)-1).Draw(t, "vi")
				set = append(set, vs[j])
				vs = append(vs[:j], vs[j+1:]...)
			}
		}
		sort.Strings(set)
		mode := g.holdMode("mode")
		st := []step{lit(Action{Op: "partition", Set: set, Mode: mode}), advance(g.dur("d", 2*et, 3*et, 4*et))}
		st = append(st, func(g *Gen, v View) (Action, bool) {
			id := newestLeaderExcept(v, leader)
			if id == "" {
				return Action{Op: "advance", DurUs: et}, true
			}
			return Action{Op: "submit", Node: id, Kind: "write", Client: g.nextClient(), Timeout: 2000}, true
		}, advance(g.dur("dw", 20000, hb, 2*hb)))
		for _, k := range g.readKinds() {
			st = append(st, lit(Action{Op: "submit", Node: leader, Kind: k, Client: 9, Timeout: 1000}))
		}
		st = append(st, advance(g.dur("d2", hb, 2*hb, et)), lit(Action{Op: "heal", Mode: "deliver"}), advance(g.dur("d3", hb, et)))
		g.push("P9", st...)
	case "P21": // the leader takes itself out of the voters while only part of the cluster hears about it
		if leader == "" || len(g.C.Order) < 3 {
			g.push("P21", advance(et))
			return
		}
		others := g.C.others(leader)
		carrier := g.pick("carrier", others)
		var st []step
		for _, o := range others {
			if o != carrier {
				st = append(st, lit(Action{Op: "link", Node: leader, Node2: o, Mode: "drop"}), lit(Action{Op: "link", Node: o, Node2: leader, Mode: "drop"}))
			}
		}
		// the carrier receives the new configuration, the leader never learns that it did
		st = append(st, lit(Action{Op: "link", Node: carrier, Node2: leader, Mode: g.holdMode("cmode")}))
		if rapid.Bool().Draw(t, "demote") {
			st = append(st, lit(Action{Op: "add", Node: leader, Node2: leader, Voter: false, Client: g.nextClient(), Timeout: 100}))
		} else {
			st = append(st, lit(Action{Op: "remove", Node: leader, Node2: leader, Client: g.nextClient(), Timeout: 100}))
		}
		st = append(st, advance(g.dur("d0", 5000, 20000, hb)))
		// the leader keeps some of the others, too few to confirm it
		set := []string{leader}
		rest := append([]string(nil), others...)
		for i := 0; i < len(rest); i++ {
			if rest[i] == carrier {
				rest = append(rest[:i], rest[i+1:]...)
				break
			}
		}
		k := rapid.IntRange(0, len(rest)).Draw(t, "kb")
		for i := 0; i < k && len(rest) > 0; i++ {
			j := rapid.IntRange(0, len(rest)-1).Draw(t, "bi")
			set = append(set, rest[j])
			rest = append(rest[:j], rest[j+1:]...)
		}
		sort.Strings(set)
		st = append(st, lit(Action{Op: "partition", Set: set, Mode: "drop"}))
		for _, b := range set {
			if b != leader {
				st = append(st, lit(Action{Op: "link", Node: leader, Node2: b, Mode: "prompt"}), lit(Action{Op: "link", Node: b, Node2: leader, Mode: "prompt"}))
			}
		}
		st = append(st, advance(g.dur("d1", 2*et, 3*et, 5*et)))
		nw := rapid.IntRange(1, 2).Draw(t, "nw")
		for i := 0; i < nw; i++ {
			st = append(st, func(g *Gen, v View) (Action, bool) {
				id := newestLeaderExcept(v, leader)
				if id == "" {
					return Action{Op: "advance", DurUs: et}, true
				}
				return Action{Op: "submit", Node: id, Kind: "write", Client: g.nextClient(), Timeout: 2000}, true
			}, advance(g.dur("dw", 20000, hb, 2*hb)))
		}
		for _, kd := range g.readKinds() {
			st = append(st, lit(Action{Op: "submit", Node: leader, Kind: kd, Client: 9, Timeout: 1000}))
		}
		st = append(st, advance(g.dur("d2", hb, 2*hb, et)), lit(Action{Op: "heal", Mode: "deliver"}), advance(g.dur("d3", et, 3*et)))
		g.push("P21", st...)
	case "P22": // a reply outlives two leaderships: partial replication, overwrite by another leader, re-election, late reply
		if leader == "" || len(g.C.others(leader)) < 2 {
			g.push("P22", advance(et))
			return
		}
		others := g.C.others(leader)
		b := g.pick("witness", others) // receives the suffix, its replies are parked
		var st []step
		for _, o := range others {
			if o != b {
				st = append(st, lit(Action{Op: "link", Node: leader, Node2: o, Mode: "drop"}))
			}
		}
		// its replies are parked (they arrive in the second leadership) - or delivered, so that what the
		// leader remembers about the witness dates from the first leadership
		if rapid.IntRange(0, 2).Draw(t, "parkReplies") != 0 {
			st = append(st, lit(Action{Op: "link", Node: b, Node2: leader, Mode: "held"}))
		}
		k := rapid.IntRange(1, 6).Draw(t, "suffix")
		for i := 0; i < k; i++ {
			st = append(st, submitAt(leader, "write"))
		}
		st = append(st, advance(g.dur("d0", 5000, hb, 2*hb)))
		// the leader falls silent; the witness may not stand for election (its log is the longest)
		st = append(st, lit(Action{Op: "link", Node: leader, Node2: b, Mode: "drop"}))
		for _, o := range others {
			if o != b {
				st = append(st, lit(Action{Op: "link", Node: b, Node2: o, Mode: "noreq"}))
			}
		}
		st = append(st, advance(g.dur("d1", 2*et, 3*et)))
		nw := rapid.IntRange(0, 2).Draw(t, "nw")
		for i := 0; i < nw; i++ {
			st = append(st, func(g *Gen, v View) (Action, bool) {
				id := newestLeaderExcept(v, leader)
				if id == "" {
					return Action{Op: "advance", DurUs: hb}, true
				}
				return Action{Op: "submit", Node: id, Kind: "write", Client: g.nextClient(), Timeout: 2000}, true
			})
		}
		st = append(st, advance(g.dur("d2", hb, 2*hb, et)))
		// the old leader is the only one that may ask for votes from now on
		for _, o := range others {
			for _, q := range g.C.Order {
				if q != o {
					st = append(st, lit(Action{Op: "link", Node: o, Node2: q, Mode: "noreq"}))
				}
			}
		}
		st = append(st, lit(Action{Op: "link", Node: b, Node2: leader, Mode: "held"}))
		for _, o := range others {
			st = append(st, lit(Action{Op: "link", Node: leader, Node2: o, Mode: "prompt"}))
		}
		st = append(st, advance(g.dur("d3", 3*et, 5*et)))
		// it reaches only some of the others now; then the parked replies arrive
		keep := g.pick("keep", others)
		for _, o := range others {
			if o != keep && rapid.IntRange(0, 3).Draw(t, "cut") != 0 {
				st = append(st, lit(Action{Op: "link", Node: leader, Node2: o, Mode: "drop"}))
			}
		}
		st = append(st, lit(Action{Op: "releaseto", Node: leader, Mode: "deliver"}), advance(g.dur("d4", 1000, hb)))
		k2 := rapid.IntRange(1, 3).Draw(t, "k2")
		for i := 0; i < k2; i++ {
			st = append(st, submitAt(leader, "write"))
		}
		st = append(st, advance(g.dur("d5", hb, 2*hb)))
		// the re-elected leader and the node it reaches are cut off, the rest moves on
		st = append(st, lit(Action{Op: "heal", Mode: "drop"}), lit(Action{Op: "partition", Set: []string{leader, keep}, Mode: "drop"}))
		st = append(st, advance(g.dur("d6", 2*et, 4*et)))
		st = append(st, func(g *Gen, v View) (Action, bool) {
			id := newestLeaderExcept(v, leader)
			if id == "" {
				return Action{Op: "advance", DurUs: et}, true
			}
			return Action{Op: "submit", Node: id, Kind: "write", Client: g.nextClient(), Timeout: 2000}, true
		}, advance(g.dur("d7", hb, et)))
		st = append(st, lit(Action{Op: "heal", Mode: "deliver"}), advance(g.dur("d8", et, 2*et)))
		g.push("P22", st...)
	case "P23": // a candidate wins through one voter whose reply is the last thing it hears; the voter forgets (crash, restart) and a rival with an equal log asks it in the same term
		if leader == "" || len(g.C.others(leader)) < 2 || !g.P.Crashes {
			g.push("P23", advance(et))
			return
		}
		others := g.C.others(leader)
		voter := g.pick("voter", others)
		var st []step
		sameInstance := rapid.IntRange(0, 2).Draw(t, "sameInstance") == 0
		if sameInstance && rapid.Bool().Draw(t, "earlierRestart") {
			// the voter has been through a Stop()/Restart() of the same instance before (its storage objects have read their files once)
			st = append(st, lit(Action{Op: "api", Kind: "stop", Node: voter}), advance(g.dur("ds0", 1000, hb)), lit(Action{Op: "api", Kind: "restart", Node: voter}), advance(g.dur("ds1", hb, et)))
		}
		// only the old leader may ask for votes at first; it reaches only the voter, whose replies are parked
		for _, o := range others {
			for _, q := range g.C.Order {
				if q != o {
					st = append(st, lit(Action{Op: "link", Node: o, Node2: q, Mode: "noreq"}))
				}
			}
			if o != voter {
				st = append(st, lit(Action{Op: "link", Node: leader, Node2: o, Mode: "drop"}))
			}
		}
		st = append(st, lit(Action{Op: "link", Node: voter, Node2: leader, Mode: "held"}))
		if rapid.Bool().Draw(t, "viaCrash") {
			st = append(st, lit(Action{Op: "crash", Node: leader}), lit(Action{Op: "restart", Node: leader}))
		} else {
			st = append(st, lit(Action{Op: "stop", Node: leader}), lit(Action{Op: "restart", Node: leader}))
		}
		// prevote replies first, then the vote reply - after the link to the voter has been cut, so that
		// the winner's first AppendEntries never reaches the voter
		st = append(st, advance(2*et+g.dur("d0", 1000, hb)), lit(Action{Op: "releaseto", Node: leader, Mode: "deliver"}), advance(g.dur("d1", 2000, 10000)))
		if rapid.IntRange(0, 3).Draw(t, "cutFirst") != 0 {
			st = append(st, lit(Action{Op: "link", Node: leader, Node2: voter, Mode: "drop"}))
		}
		st = append(st, lit(Action{Op: "releaseto", Node: leader, Mode: "deliver"}), advance(g.dur("d2", 2000, hb)))
		st = append(st, lit(Action{Op: "isolate", Node: leader, Mode: "drop", Dir: "out"}))
		// the voter loses its memory; the others may campaign now
		// (a crash and a new process - or Stop() and Restart() on the same instance, whose storage objects live on)
		if sameInstance {
			st = append(st, lit(Action{Op: "api", Kind: "stop", Node: voter}), advance(g.dur("ds", 1000, hb)), lit(Action{Op: "api", Kind: "restart", Node: voter}))
		} else {
			st = append(st, lit(Action{Op: "crash", Node: voter}), lit(Action{Op: "restart", Node: voter}))
		}
		silent := rapid.IntRange(0, 2).Draw(t, "voterSilent") != 0
		for _, o := range others {
			if o == voter && silent {
				continue
			}
			for _, q := range others {
				if q != o {
					st = append(st, lit(Action{Op: "link", Node: o, Node2: q, Mode: "prompt"}))
				}
			}
		}
		st = append(st, advance(g.dur("d3", 2*et, 3*et, 4*et)), submitAt("anyleader", "write"), advance(hb))
		st = append(st, lit(Action{Op: "heal", Mode: "deliver"}), advance(g.dur("d4", hb, et)))
		g.push("P23", st...)
	case "P24": // two membership changes from one configuration: the cut-off old leader adds a node, a fresh leader that cannot commit yet is asked to remove one
		if leader == "" || !g.P.Membership {
			g.push("P24", advance(et))
			return
		}
		cf := v.Conf[leader]
		var voters []string
		if cf != nil {
			for id, voter := range cf.Members {
				if voter && id != leader {
					voters = append(voters, id)
				}
			}
		}
		sort.Strings(voters)
		spare := ""
		for i := 0; i < 7; i++ {
			id := nodeID(i)
			if cf != nil {
				if _, ok := cf.Members[id]; ok {
					continue
				}
			}
			spare = id
			break
		}
		if len(voters) < 3 || spare == "" {
			g.push("P24", g.membershipSteps(v)...)
			return
		}
		a := g.pick("newleader", voters) // the only node that may campaign
		var rest []string
		for _, id := range voters {
			if id != a {
				rest = append(rest, id)
			}
		}
		victim := g.pick("victim", rest) // votes for a, never hears from it again, is removed by it
		var st []step
		st = append(st, func(g *Gen, v View) (Action, bool) {
			if n := g.C.Nodes[spare]; n != nil && !n.Stopped() {
				return Action{Op: "advance", DurUs: 1000}, true
			}
			return Action{Op: "startempty", Node: spare}, true
		})
		// the old leader keeps only the spare node
		for _, o := range g.C.Order {
			if o != leader && o != spare {
				st = append(st, lit(Action{Op: "link", Node: leader, Node2: o, Mode: "drop"}), lit(Action{Op: "link", Node: o, Node2: leader, Mode: "drop"}))
			}
		}
		st = append(st, lit(Action{Op: "add", Node: leader, Node2: spare, Voter: true, Client: g.nextClient(), Timeout: 100}), advance(g.dur("d0", 5000, hb)))
		// only a may ask for votes; what it sends to the victim is parked and only vote traffic is let through
		for _, o := range voters {
			if o != a {
				for _, q := range g.C.Order {
					if q != o {
						st = append(st, lit(Action{Op: "link", Node: o, Node2: q, Mode: "noreq"}))
					}
				}
			}
		}
		st = append(st, lit(Action{Op: "link", Node: a, Node2: victim, Mode: "held"}))
		// further voters hear nothing from a either (it must not be able to commit in the old configuration)
		for _, o := range rest {
			if o != victim && len(rest) > 2 && rapid.Bool().Draw(t, "cutmore") {
				st = append(st, lit(Action{Op: "link", Node: a, Node2: o, Mode: "held"}))
			}
		}
		rounds := rapid.IntRange(8, 16).Draw(t, "rounds")
		for i := 0; i < rounds; i++ {
			st = append(st, advance(et/4))
			for _, o := range rest {
				st = append(st, lit(Action{Op: "releaselink", Node: a, Node2: o, Kind: "RV", Mode: "deliver"}))
			}
			// as soon as a leads: remove the victim, at once
			st = append(st, func(g *Gen, v View) (Action, bool) {
				if s, ok := v.Status[a]; ok && s.State == "leader" {
					return Action{Op: "remove", Node: a, Node2: victim, Client: g.nextClient(), Timeout: 100}, true
				}
				return Action{Op: "advance", DurUs: 1000}, true
			})
		}
		st = append(st, submitAt(a, "write"), advance(g.dur("d1", hb, 2*hb)))
		// the old leader, the victim and the spare node find each other; a and its followers stay apart
		side := []string{leader, victim, spare}
		sort.Strings(side)
		st = append(st, lit(Action{Op: "heal", Mode: "drop"}), lit(Action{Op: "partition", Set: side, Mode: "drop"}))
		st = append(st, advance(g.dur("d2", 3*et, 5*et)))
		st = append(st, func(g *Gen, v View) (Action, bool) {
			id := newestLeaderExcept(v, a)
			if id == "" {
				return Action{Op: "advance", DurUs: et}, true
			}
			return Action{Op: "submit", Node: id, Kind: "write", Client: g.nextClient(), Timeout: 2000}, true
		}, advance(g.dur("d3", hb, et)), submitAt(a, "write"), advance(hb))
		st = append(st, lit(Action{Op: "heal", Mode: "deliver"}), advance(g.dur("d4", et, 3*et)))
		g.push("P24", st...)
	case "P25": // a leader elected while one voter was away is cut off from everybody; much later it reaches only that lagging voter (whose first answer is a rejection)
		if leader == "" || len(g.C.others(leader)) < 2 {
			g.push("P25", advance(et))
			return
		}
		lag := g.pick("laggard", g.C.others(leader))
		var st []step
		st = append(st, lit(Action{Op: "isolate", Node: lag, Mode: "drop"}))
		nw0 := rapid.IntRange(1, 3).Draw(t, "nw0")
		for i := 0; i < nw0; i++ {
			st = append(st, submitAt(leader, "write"))
		}
		st = append(st, advance(g.dur("d0", hb, 2*hb)))
		// the leader is deposed; its successor has never talked to the laggard
		st = append(st, lit(Action{Op: "isolate", Node: leader, Mode: "drop", Dir: "out"}), advance(g.dur("d1", 2*et, 3*et)))
		succ := ""
		st = append(st, func(g *Gen, v View) (Action, bool) {
			succ = newestLeaderExcept(v, leader)
			if succ == "" || succ == lag {
				succ = ""
				return Action{Op: "advance", DurUs: et}, true
			}
			return Action{Op: "isolate", Node: succ, Mode: "drop"}, true
		})
		st = append(st, lit(Action{Op: "isolate", Node: leader, Mode: "prompt", Dir: "out"}))
		st = append(st, func(g *Gen, v View) (Action, bool) {
			if succ == "" {
				return Action{Op: "advance", DurUs: 1000}, true
			}
			// (the successor stays cut off: restore its isolation after the line above touched one of its links)
			return Action{Op: "isolate", Node: succ, Mode: "drop"}, true
		})
		st = append(st, advance(g.dur("d2", 2*et, 3*et, 4*et)))
		nw := rapid.IntRange(1, 2).Draw(t, "nw")
		for i := 0; i < nw; i++ {
			st = append(st, func(g *Gen, v View) (Action, bool) {
				id := newestLeaderExcept(v, succ)
				if id == "" || succ == "" {
					return Action{Op: "advance", DurUs: et}, true
				}
				return Action{Op: "submit", Node: id, Kind: "write", Client: g.nextClient(), Timeout: 2000}, true
			}, advance(g.dur("dw", 20000, hb, 2*hb)))
		}
		reads := func() {
			for _, k := range g.readKinds() {
				k := k
				st = append(st, func(g *Gen, v View) (Action, bool) {
					if succ == "" {
						return Action{Op: "advance", DurUs: 1000}, true
					}
					return Action{Op: "submit", Node: succ, Kind: k, Client: g.nextClient(), Timeout: 1000}, true
				})
			}
		}
		reads()
		// only the link between the cut-off leader and the laggard comes back
		st = append(st, func(g *Gen, v View) (Action, bool) {
			if succ == "" {
				return Action{Op: "advance", DurUs: 1000}, true
			}
			return Action{Op: "link", Node: succ, Node2: lag, Mode: "prompt"}, true
		}, func(g *Gen, v View) (Action, bool) {
			if succ == "" {
				return Action{Op: "advance", DurUs: 1000}, true
			}
			return Action{Op: "link", Node: lag, Node2: succ, Mode: "prompt"}, true
		})
		for i := 0; i < 3; i++ {
			st = append(st, advance(g.dur("dr", 2000, 10000, hb)))
			reads()
		}
		st = append(st, advance(g.dur("d3", hb, et)), lit(Action{Op: "heal", Mode: "deliver"}), advance(g.dur("d4", et, 2*et)))
		g.push("P25", st...)
	case "P26": // a newcomer with an empty log is sent the leader's snapshot and dies between two storage operations of the installation
		if leader == "" {
			g.push("P26", advance(et))
			return
		}
		spare := ""
		for i := 0; i < 7; i++ {
			id := nodeID(i)
			if cf := v.Conf[leader]; cf != nil {
				if _, ok := cf.Members[id]; ok {
					continue
				}
			}
			if n := g.C.Nodes[id]; n != nil && n.everStarted {
				continue // it has a history; the pattern wants an empty directory
			}
			spare = id
			break
		}
		if spare == "" {
			g.push("P26", advance(et))
			return
		}
		var st []step
		nw := rapid.IntRange(1, 5).Draw(t, "nw")
		for i := 0; i < nw; i++ {
			st = append(st, submitAt(leader, "write"))
		}
		st = append(st, advance(g.dur("d0", hb, 2*hb)), lit(Action{Op: "armsnap", Node: leader}), submitAt(leader, "write"), advance(g.dur("d1", hb, et)))
		st = append(st, lit(Action{Op: "startempty", Node: spare}))
		st = append(st, lit(Action{Op: "armcrash", Node: spare, K: rapid.IntRange(1, 14).Draw(t, "k"), Before: rapid.Bool().Draw(t, "before")}))
		st = append(st, lit(Action{Op: "add", Node: leader, Node2: spare, Voter: rapid.Bool().Draw(t, "voter"), Client: g.nextClient(), Timeout: 500}))
		st = append(st, advance(g.dur("d2", et, 2*et)), lit(Action{Op: "restart", Node: spare}), advance(g.dur("d3", et, 3*et)))
		st = append(st, submitAt("leader", "write"), advance(g.dur("d4", hb, et)))
		g.push("P26", st...)
	case "P27": // Stop() and Start()/Restart() on the *same* instance of a node whose snapshot is behind what it has applied
		if leader == "" {
			g.push("P27", advance(et))
			return
		}
		x := g.pick("restartee", g.running(v))
		if x == "" {
			return
		}
		var st []step
		nw := rapid.IntRange(1, 4).Draw(t, "nw")
		for i := 0; i < nw; i++ {
			st = append(st, submitAt("leader", "write"))
		}
		st = append(st, advance(g.dur("d0", hb, 2*hb)), lit(Action{Op: "armsnap", Node: x}), submitAt("leader", "write"), advance(g.dur("d1", hb, et)))
		nw2 := rapid.IntRange(0, 4).Draw(t, "nw2")
		for i := 0; i < nw2; i++ {
			st = append(st, submitAt("leader", "write"))
		}
		st = append(st, advance(g.dur("d2", hb, 2*hb)))
		st = append(st, lit(Action{Op: "api", Kind: "stop", Node: x}), advance(g.dur("d3", 1000, hb, et)))
		st = append(st, lit(Action{Op: "api", Kind: rapid.SampledFrom([]string{"start", "restart"}).Draw(t, "how"), Node: x}), advance(g.dur("d4", et, 3*et)))
		st = append(st, submitAt("leader", "write"), advance(g.dur("d5", hb, et)))
		g.push("P27", st...)
	case "P28": // an aborted change: the cut-off leader appends a removal nobody else sees and crashes; the others commit a different
		// change; the old leader restarts, is repaired, and is then left alone with the node the genuine change removed
		if leader == "" {
			g.push("P28", advance(et))
			return
		}
		var voters []string
		if cf := v.Conf[leader]; cf != nil {
			for id, voter := range cf.Members {
				if voter && id != leader {
					voters = append(voters, id)
				}
			}
		}
		sort.Strings(voters)
		if len(voters) < 3 {
			g.push("P28", g.membershipSteps(v)...)
			return
		}
		a := g.pick("aborted", voters)
		var rest []string
		for _, id := range voters {
			if id != a {
				rest = append(rest, id)
			}
		}
		w := g.pick("removed", rest)
		var st []step
		st = append(st, lit(Action{Op: "isolate", Node: leader, Mode: "drop"}))
		nw := rapid.IntRange(0, 3).Draw(t, "nw")
		for i := 0; i < nw; i++ {
			st = append(st, submitAt(leader, "write"))
		}
		st = append(st, lit(Action{Op: "remove", Node: leader, Node2: a, Client: g.nextClient(), Timeout: 100}), advance(g.dur("d0", 1000, hb)))
		// the old leader dies (and is repaired by truncation after its restart) - or stays up, cut off
		down := rapid.IntRange(0, 2).Draw(t, "oldLeader")
		switch down {
		case 0:
			st = append(st, lit(Action{Op: "crash", Node: leader}))
		case 1:
			st = append(st, lit(Action{Op: "stop", Node: leader}))
		}
		st = append(st, advance(g.dur("d1", 2*et, 3*et)))
		st = append(st, func(g *Gen, v View) (Action, bool) {
			id := newestLeaderExcept(v, leader)
			if id == "" {
				return Action{Op: "advance", DurUs: et}, true
			}
			target := w
			if id == w {
				target = a
			}
			return Action{Op: "remove", Node: id, Node2: target, Client: g.nextClient(), Timeout: 500}, true
		}, advance(g.dur("d2", 2*hb, et)))
		// optionally the others compact beyond the aborted entry, so that the repair is an InstallSnapshot that discards the log
		if rapid.Bool().Draw(t, "compact") {
			for i := rapid.IntRange(1, 5).Draw(t, "more"); i > 0; i-- {
				st = append(st, func(g *Gen, v View) (Action, bool) {
					id := newestLeaderExcept(v, leader)
					if id == "" {
						return Action{Op: "advance", DurUs: et}, true
					}
					return Action{Op: "submit", Node: id, Kind: "write", Client: g.nextClient(), Timeout: 2000}, true
				})
			}
			st = append(st, advance(g.dur("dc", hb, 2*hb)))
			for _, o := range voters {
				st = append(st, lit(Action{Op: "armsnap", Node: o}))
			}
			st = append(st, func(g *Gen, v View) (Action, bool) {
				id := newestLeaderExcept(v, leader)
				if id == "" {
					return Action{Op: "advance", DurUs: et}, true
				}
				return Action{Op: "submit", Node: id, Kind: "write", Client: g.nextClient(), Timeout: 2000}, true
			}, advance(g.dur("dc2", 2*hb, et)))
		}
		if down != 2 {
			st = append(st, lit(Action{Op: "restart", Node: leader}))
		}
		st = append(st, lit(Action{Op: "reconnect", Node: leader, Mode: "drop"}), advance(g.dur("d3", et, 2*et)))
		side := []string{leader, w}
		sort.Strings(side)
		st = append(st, lit(Action{Op: "partition", Set: side, Mode: "drop"}), advance(g.dur("d4", 3*et, 5*et)))
		st = append(st, submitAt(leader, "write"), func(g *Gen, v View) (Action, bool) {
			id := newestLeaderExcept(v, leader)
			if id == "" {
				return Action{Op: "advance", DurUs: et}, true
			}
			return Action{Op: "submit", Node: id, Kind: "write", Client: g.nextClient(), Timeout: 2000}, true
		}, advance(g.dur("d5", hb, et)))
		st = append(st, lit(Action{Op: "heal", Mode: "deliver"}), advance(g.dur("d6", et, 3*et)))
		g.push("P28", st...)
	case "P30": // a voter whose snapshot covers its whole log is asked by a candidate that missed committed entries, while nobody
		// else may campaign and the leader is gone
		if leader == "" || len(g.C.others(leader)) < 2 {
			g.push("P30", advance(et))
			return
		}
		others := g.C.others(leader)
		stale := g.pick("stale", others)
		var rest []string
		for _, o := range others {
			if o != stale {
				rest = append(rest, o)
			}
		}
		var st []step
		st = append(st, lit(Action{Op: "isolate", Node: stale, Mode: "drop"}))
		if rapid.Bool().Draw(t, "longOld") {
			// ... or one with a long log of an old term: it believes it leads and keeps appending
			st = append(st, submitAt(stale, "write"), submitAt(stale, "write"))
		}
		nw := rapid.IntRange(1, 5).Draw(t, "nw")
		for i := 0; i < nw; i++ {
			st = append(st, submitAt(leader, "write"))
		}
		st = append(st, advance(g.dur("d0", hb, 2*hb)))
		for _, o := range rest {
			st = append(st, lit(Action{Op: "armsnap", Node: o}))
		}
		if rapid.Bool().Draw(t, "leaderToo") {
			st = append(st, lit(Action{Op: "armsnap", Node: leader}))
		}
		st = append(st, submitAt(leader, "write"), advance(g.dur("d1", 2*hb, et)))
		// the leader disappears; only the stale node may ask for votes
		st = append(st, lit(Action{Op: "heal", Mode: "drop"}), lit(Action{Op: "isolate", Node: leader, Mode: "drop"}))
		for _, o := range rest {
			for _, q := range g.C.Order {
				if q != o && q != leader {
					st = append(st, lit(Action{Op: "link", Node: o, Node2: q, Mode: "noreq"}))
				}
			}
		}
		st = append(st, advance(g.dur("d2", 3*et, 5*et)), submitAt("anyleader", "write"), advance(g.dur("d3", hb, et)))
		st = append(st, lit(Action{Op: "heal", Mode: "deliver"}), advance(g.dur("d4", et, 3*et)))
		g.push("P30", st...)
	case "P31": // the voters that just renewed the leader's lease restart (new processes) and are cut off from it, while a voter
		// that has been asking for votes for a while keeps asking: reads at the old leader inside its lease window
		if leader == "" || len(g.C.others(leader)) < 2 || !g.P.Crashes {
			g.push("P31", advance(et))
			return
		}
		others := g.C.others(leader)
		cand := g.pick("asker", others)
		var st []step
		st = append(st, lit(Action{Op: "link", Node: leader, Node2: cand, Mode: "drop"}), lit(Action{Op: "link", Node: cand, Node2: leader, Mode: "drop"}))
		// (no writes at the leader from here on: the asker's log must stay as good as everybody's)
		st = append(st, advance(g.dur("d0", 2*et, 3*et, 4*et)))
		rounds := rapid.IntRange(1, 3).Draw(t, "rounds")
		for r := 0; r < rounds; r++ {
			st = append(st, advance(g.dur("d1", 1000, hb/2, hb, 2*hb)))
			for _, o := range others {
				if o != cand {
					how := rapid.SampledFrom([]string{"crash", "crash", "stop"}).Draw(t, "how")
					st = append(st, lit(Action{Op: how, Node: o}), lit(Action{Op: "restart", Node: o}))
					st = append(st, lit(Action{Op: "link", Node: leader, Node2: o, Mode: "drop"}), lit(Action{Op: "link", Node: o, Node2: leader, Mode: "drop"}))
				}
			}
			slices := rapid.IntRange(4, 10).Draw(t, "slices")
			for i := 0; i < slices; i++ {
				st = append(st, advance(g.dur("slice", et/16, et/8, et/4)))
				st = append(st, func(g *Gen, v View) (Action, bool) {
					id := newestLeaderExcept(v, leader)
					if id == "" {
						return Action{Op: "advance", DurUs: 1000}, true
					}
					return Action{Op: "submit", Node: id, Kind: "write", Client: g.nextClient(), Timeout: 1000}, true
				}, advance(g.dur("ack", 2000, 5000, hb/2)))
				for _, k := range g.readKinds() {
					st = append(st, lit(Action{Op: "submit", Node: leader, Kind: k, Client: g.nextClient(), Timeout: 300}))
				}
			}
			// everybody hears the old leader again (if it still leads) before the next round
			for _, o := range others {
				if o != cand {
					st = append(st, lit(Action{Op: "link", Node: leader, Node2: o, Mode: "prompt"}), lit(Action{Op: "link", Node: o, Node2: leader, Mode: "prompt"}))
				}
			}
			st = append(st, advance(g.dur("d2", 2*et, 3*et)))
		}
		st = append(st, lit(Action{Op: "heal", Mode: "deliver"}), advance(g.dur("d3", et, 2*et)))
		g.push("P31", st...)
	case "P32": // a node wins a prevote, then loses every real vote request and keeps raising its term; later it is stale, restarted
		// (so it only sends prevotes) and needed: the leader is gone and the only electable node is below its term
		if leader == "" || len(g.C.others(leader)) != 2 || !g.P.Crashes {
			g.push("P32", advance(et))
			return
		}
		others := g.C.others(leader)
		c := g.pick("inflated", others)
		b := others[0]
		if b == c {
			b = others[1]
		}
		var st []step
		st = append(st, lit(Action{Op: "isolate", Node: leader, Mode: "drop"}))
		for _, q := range g.C.Order {
			if q != b {
				st = append(st, lit(Action{Op: "link", Node: b, Node2: q, Mode: "noreq"}))
			}
		}
		st = append(st, lit(Action{Op: "link", Node: c, Node2: b, Mode: "held"}))
		rounds := rapid.IntRange(6, 14).Draw(t, "rounds")
		for i := 0; i < rounds; i++ {
			st = append(st, advance(et/2), lit(Action{Op: "releaselink", Node: c, Node2: b, Kind: "RVpre", Mode: "deliver"}))
		}
		// it is cut off; the others go on and its log falls behind
		st = append(st, lit(Action{Op: "heal", Mode: "drop"}), lit(Action{Op: "isolate", Node: c, Mode: "drop"}), advance(g.dur("d0", 2*et, 3*et)))
		nw := rapid.IntRange(1, 3).Draw(t, "nw")
		for i := 0; i < nw; i++ {
			st = append(st, submitAt("leader", "write"))
		}
		st = append(st, advance(g.dur("d1", 2*hb, et)))
		// the leader dies; the inflated node restarts and rejoins; nothing else happens
		st = append(st, func(g *Gen, v View) (Action, bool) {
			l := v.Leader()
			if l == "" || l == c {
				return Action{Op: "advance", DurUs: 1000}, true
			}
			return Action{Op: "crash", Node: l}, true
		})
		st = append(st, lit(Action{Op: rapid.SampledFrom([]string{"crash", "stop"}).Draw(t, "how"), Node: c}), lit(Action{Op: "restart", Node: c}))
		st = append(st, lit(Action{Op: "heal", Mode: "drop"}), advance(g.dur("d2", 4*et, 8*et)))
		g.push("P32", st...)
	case "P33": // a cut-off leader keeps accepting operations (long, diverging, never committed); the others elect, commit more and
		// compact beyond its log start; heal: it must be repaired through InstallSnapshot although its log reaches the label
		if leader == "" || len(g.C.others(leader)) < 2 {
			g.push("P33", advance(et))
			return
		}
		var st []step
		st = append(st, lit(Action{Op: "isolate", Node: leader, Mode: "drop"}))
		k := rapid.IntRange(3, 12).Draw(t, "stale")
		for i := 0; i < k; i++ {
			st = append(st, submitAt(leader, "write"))
		}
		st = append(st, advance(g.dur("d0", 2*et, 3*et)))
		m := rapid.IntRange(2, 8).Draw(t, "fresh")
		for i := 0; i < m; i++ {
			st = append(st, func(g *Gen, v View) (Action, bool) {
				id := newestLeaderExcept(v, leader)
				if id == "" {
					return Action{Op: "advance", DurUs: et}, true
				}
				return Action{Op: "submit", Node: id, Kind: "write", Client: g.nextClient(), Timeout: 2000}, true
			})
		}
		st = append(st, advance(g.dur("d1", hb, 2*hb)))
		for _, o := range g.C.others(leader) {
			st = append(st, lit(Action{Op: "armsnap", Node: o}))
		}
		st = append(st, func(g *Gen, v View) (Action, bool) {
			id := newestLeaderExcept(v, leader)
			if id == "" {
				return Action{Op: "advance", DurUs: et}, true
			}
			return Action{Op: "submit", Node: id, Kind: "write", Client: g.nextClient(), Timeout: 2000}, true
		}, advance(g.dur("d2", 2*hb, et)))
		// optionally the diverged node dies at one of the storage operations of its repair and is restarted
		dies := g.P.Crashes && rapid.Bool().Draw(t, "diesInRepair")
		if dies {
			st = append(st, lit(Action{Op: "armcrash", Node: leader, K: rapid.IntRange(1, 10).Draw(t, "k"), Before: rapid.Bool().Draw(t, "before")}))
		}
		st = append(st, lit(Action{Op: "heal", Mode: "drop"}), advance(g.dur("d3", et, 3*et)))
		if dies {
			st = append(st, lit(Action{Op: "restart", Node: leader}), advance(g.dur("d3b", et, 2*et)))
		}
		st = append(st, submitAt("leader", "write"), advance(g.dur("d4", hb, et)))
		g.push("P33", st...)
	case "P34": // a cut-off leader with pending submissions (long client timeouts) is stopped; the others commit at the same indexes;
		// the *same instance* is started again and repaired - its old futures must not come true with somebody else's entries
		if leader == "" || len(g.C.others(leader)) < 2 {
			g.push("P34", advance(et))
			return
		}
		var st []step
		st = append(st, lit(Action{Op: "isolate", Node: leader, Mode: "drop"}))
		k := rapid.IntRange(1, 4).Draw(t, "pending")
		for i := 0; i < k; i++ {
			st = append(st, func(g *Gen, v View) (Action, bool) {
				return Action{Op: "submit", Node: leader, Kind: "write", Client: g.nextClient(), Timeout: 30000}, true
			})
		}
		st = append(st, advance(g.dur("d0", 1000, hb)), lit(Action{Op: "api", Kind: "stop", Node: leader}), advance(g.dur("d1", 2*et, 3*et)))
		m := rapid.IntRange(1, 5).Draw(t, "fresh")
		for i := 0; i < m; i++ {
			st = append(st, func(g *Gen, v View) (Action, bool) {
				id := newestLeaderExcept(v, leader)
				if id == "" {
					return Action{Op: "advance", DurUs: et}, true
				}
				return Action{Op: "submit", Node: id, Kind: "write", Client: g.nextClient(), Timeout: 2000}, true
			})
		}
		st = append(st, advance(g.dur("d2", hb, 2*hb)), lit(Action{Op: "heal", Mode: "drop"}))
		st = append(st, lit(Action{Op: "api", Kind: rapid.SampledFrom([]string{"restart", "start"}).Draw(t, "how"), Node: leader}), advance(g.dur("d3", et, 3*et)))
		st = append(st, submitAt("leader", "write"), advance(g.dur("d4", 2*hb, et)))
		g.push("P34", st...)
	case "P35": // figure 8 proper: the cut-off leader holds an entry nobody has; a second node wins a term and appends at the same
		// index but reaches nobody; the first is re-elected by the rest, loses the rest, and is left with the second node only
		if leader == "" || len(g.C.others(leader)) < 2 {
			g.push("P35", advance(et))
			return
		}
		others := g.C.others(leader)
		b := g.pick("second", others)
		var rest []string
		for _, o := range others {
			if o != b {
				rest = append(rest, o)
			}
		}
		var st []step
		st = append(st, lit(Action{Op: "isolate", Node: leader, Mode: "drop"}), submitAt(leader, "write"), advance(g.dur("d0", 1000, hb)))
		for _, o := range rest {
			for _, q := range g.C.Order {
				if q != o {
					st = append(st, lit(Action{Op: "link", Node: o, Node2: q, Mode: "noreq"}))
				}
			}
			st = append(st, lit(Action{Op: "link", Node: b, Node2: o, Mode: "held"}))
		}
		for i := rapid.IntRange(8, 14).Draw(t, "rounds"); i > 0; i-- {
			st = append(st, advance(et/4))
			for _, o := range rest {
				st = append(st, lit(Action{Op: "releaselink", Node: b, Node2: o, Kind: "RV", Mode: "deliver"}))
			}
		}
		// whatever else the second node sent is lost; it is cut off
		for _, o := range rest {
			st = append(st, lit(Action{Op: "releaselink", Node: b, Node2: o, Mode: "drop"}))
		}
		st = append(st, lit(Action{Op: "isolate", Node: b, Mode: "drop"}))
		// the first node finds the rest again, learns the newer term and is re-elected by them
		for _, o := range rest {
			st = append(st, lit(Action{Op: "link", Node: leader, Node2: o, Mode: "prompt"}), lit(Action{Op: "link", Node: o, Node2: leader, Mode: "noreq"}))
		}
		st = append(st, advance(g.dur("d1", 3*et, 5*et)))
		// then it loses the rest and is left with the second node, which may not campaign
		for _, o := range rest {
			st = append(st, lit(Action{Op: "link", Node: leader, Node2: o, Mode: "drop"}), lit(Action{Op: "link", Node: o, Node2: leader, Mode: "drop"}))
		}
		st = append(st, lit(Action{Op: "link", Node: leader, Node2: b, Mode: "prompt"}), lit(Action{Op: "link", Node: b, Node2: leader, Mode: "noreq"}))
		st = append(st, submitAt(leader, "write"), advance(g.dur("d2", 2*hb, et)), submitAt(leader, "write"), advance(g.dur("d3", hb, et)))
		st = append(st, lit(Action{Op: "heal", Mode: "drop"}), advance(g.dur("d4", et, 3*et)))
		g.push("P35", st...)
	case "P36": // the acknowledgements of one entry are spread over several partitions: first one voter (then lost to a new leader),
		// much later another one - the entry commits at the old leader while only that last voter is in contact
		if leader == "" || len(g.C.others(leader)) < 3 {
			g.push("P36", advance(et))
			return
		}
		others := g.C.others(leader)
		b := g.pick("early", others)
		var rest []string
		for _, o := range others {
			if o != b {
				rest = append(rest, o)
			}
		}
		c := g.pick("late", rest)
		var st []step
		// {leader, b} | {c} | {the others}
		st = append(st, lit(Action{Op: "isolate", Node: c, Mode: "drop"}))
		for _, o := range rest {
			if o != c {
				st = append(st, lit(Action{Op: "link", Node: leader, Node2: o, Mode: "drop"}), lit(Action{Op: "link", Node: o, Node2: leader, Mode: "drop"}))
				st = append(st, lit(Action{Op: "link", Node: b, Node2: o, Mode: "drop"}), lit(Action{Op: "link", Node: o, Node2: b, Mode: "drop"}))
			}
		}
		st = append(st, func(g *Gen, v View) (Action, bool) {
			return Action{Op: "submit", Node: leader, Kind: "write", Client: g.nextClient(), Timeout: 30000}, true
		}, advance(g.dur("d0", 2*hb, et/2)))
		// {leader} | {c} | {b and the others}: they elect a new leader and acknowledge a write
		st = append(st, lit(Action{Op: "link", Node: leader, Node2: b, Mode: "drop"}), lit(Action{Op: "link", Node: b, Node2: leader, Mode: "drop"}))
		for _, o := range rest {
			if o != c {
				st = append(st, lit(Action{Op: "link", Node: b, Node2: o, Mode: "prompt"}), lit(Action{Op: "link", Node: o, Node2: b, Mode: "prompt"}))
			}
		}
		st = append(st, advance(g.dur("d1", 2*et, 3*et, 4*et)))
		st = append(st, func(g *Gen, v View) (Action, bool) {
			id := newestLeaderExcept(v, leader)
			if id == "" {
				return Action{Op: "advance", DurUs: et}, true
			}
			return Action{Op: "submit", Node: id, Kind: "write", Client: g.nextClient(), Timeout: 2000}, true
		}, advance(g.dur("d2", 2*hb, et/2)))
		// {leader, c} | {b and the others}: c accepts the old entry
		st = append(st, lit(Action{Op: "link", Node: leader, Node2: c, Mode: "prompt"}), lit(Action{Op: "link", Node: c, Node2: leader, Mode: "prompt"}))
		for i := rapid.IntRange(3, 8).Draw(t, "slices"); i > 0; i-- {
			st = append(st, advance(g.dur("slice", 2000, hb/2, hb)))
			for _, k := range g.readKinds() {
				st = append(st, lit(Action{Op: "submit", Node: leader, Kind: k, Client: g.nextClient(), Timeout: 200}))
			}
		}
		st = append(st, advance(g.dur("d3", hb, et)), lit(Action{Op: "heal", Mode: "drop"}), advance(g.dur("d4", et, 2*et)))
		g.push("P36", st...)
	case "P10": // membership change under fault
		g.push("P10", g.membershipSteps(v)...)
	case "P11": // everything down, a strict majority (or everybody) comes back
		var st []step
		ids := g.running(v)
		how := rapid.SampledFrom([]string{"crash", "stop", "crash"}).Draw(t, "how")
		if !g.P.Crashes {
			how = "stop"
		}
		for _, id := range ids {
			st = append(st, lit(Action{Op: how, Node: id}))
		}
		st = append(st, advance(g.dur("down", 2*et+1000, 3*et)))
		perm := rapid.Permutation(g.C.Order).Draw(t, "perm")
		maj := len(g.C.Order)/2 + 1
		upFirst := rapid.IntRange(maj, len(perm)).Draw(t, "upFirst")
		for i, id := range perm {
			if i == upFirst {
				st = append(st, advance(g.dur("partial", 2*et, 4*et)), submitAt("leader", "write"), advance(hb))
			}
			st = append(st, lit(Action{Op: "restart", Node: id}))
		}
		st = append(st, advance(g.dur("up", et, 3*et)))
		g.push("P11", st...)
	case "P13": // reads at a freshly elected leader whose commit index is behind (whole-cluster restart or lagging follower)
		var st []step
		st = append(st, submitAt("leader", "write"), advance(g.dur("d0", 2000, hb)), submitAt("leader", "write"), advance(g.dur("d1", 2000, hb, 2*hb)))
		if g.P.Crashes && rapid.Bool().Draw(t, "fullRestart") {
			for _, id := range g.running(v) {
				st = append(st, lit(Action{Op: "crash", Node: id}))
			}
			st = append(st, advance(g.dur("down", 1000, et)))
			for _, id := range rapid.Permutation(g.C.Order).Draw(t, "perm") {
				st = append(st, lit(Action{Op: "restart", Node: id}))
			}
		} else if leader != "" {
			st = append(st, lit(Action{Op: "isolate", Node: leader, Mode: "drop"}))
		}
		n := rapid.IntRange(8, 30).Draw(t, "polls")
		gap := g.dur("poll", 5000, 25000, hb)
		for i := 0; i < n; i++ {
			st = append(st, advance(gap), func(g *Gen, v View) (Action, bool) {
				ids := g.inState(v, "leader")
				if len(ids) == 0 {
					return Action{Op: "advance", DurUs: 1000}, true
				}
				kinds := g.readKinds()
				if len(kinds) == 0 {
					kinds = []string{"write"}
				}
				return Action{Op: "submit", Node: g.pick("l", ids), Kind: rapid.SampledFrom(kinds).Draw(g.T, "rk"), Client: g.nextClient(), Timeout: 1000}, true
			})
		}
		st = append(st, lit(Action{Op: "heal", Mode: "drop"}), advance(g.dur("d2", hb, et)))
		g.push("P13", st...)
	case "P18": // C18: raw public-API call sequences on nodes in every state
		n := rapid.IntRange(5, 30).Draw(t, "apiSteps")
		var st []step
		for i := 0; i < n; i++ {
			st = append(st, func(g *Gen, v View) (Action, bool) { return g.apiAction(v), true })
		}
		g.push("P18", st...)
	case "P20": // C20: concurrent API workload while the schedule forces role changes, snapshots, membership changes, stop/start
		var st []step
		st = append(st, lit(Action{Op: "stress", K: rapid.IntRange(4, 32).Draw(t, "goroutines"), Sel: rapid.IntRange(5, 40).Draw(t, "calls"), Client: rapid.IntRange(1, 1<<20).Draw(t, "stressSeed")}))
		n := rapid.IntRange(4, 14).Draw(t, "raceSteps")
		for i := 0; i < n; i++ {
			st = append(st, func(g *Gen, v View) (Action, bool) {
				switch rapid.SampledFrom([]string{"leaderchange", "snap", "member", "stop", "restart", "advance", "advance", "api"}).Draw(g.T, "race") {
				case "leaderchange":
					if l := v.Leader(); l != "" {
						g.queue = append([]step{advance(g.dur("iso", et, 2*et)), lit(Action{Op: "reconnect", Node: l, Mode: "deliver"})}, g.queue...)
						return Action{Op: "isolate", Node: l, Mode: "drop"}, true
					}
				case "snap":
					return Action{Op: "armsnap", Node: g.anyNode("sn")}, true
				case "member":
					ms := g.membershipSteps(v)
					g.queue = append([]step{ms[1]}, g.queue...)
					return ms[0](g, v)
				case "stop":
					if ids := g.running(v); len(ids) > 1 {
						return Action{Op: "api", Kind: "stop", Node: g.pick("victim", ids)}, true
					}
				case "restart":
					if ids := g.stoppedNodes(); len(ids) > 0 {
						return Action{Op: "api", Kind: rapid.SampledFrom([]string{"restart", "start"}).Draw(g.T, "how"), Node: g.pick("rs", ids)}, true
					}
				case "api":
					return g.apiAction(v), true
				}
				return Action{Op: "advance", DurUs: g.dur("raceAdv", 5000, hb, et/2, et)}, true
			})
		}
		g.push("P20", st...)
	case "P16": // C16: a strict minority (plus non-voters / removed nodes) misbehaves, the leader's majority stays prompt
		g.push("P16", g.stickySteps(v)...)
	case "P12": // figure 8: alternate partial replication between two nodes
		rounds := rapid.IntRange(2, 3).Draw(t, "rounds")
		for r := 0; r < rounds; r++ {
			g.push("P12", func(g *Gen, v View) (Action, bool) {
				l := v.Leader()
				if l == "" {
					return Action{Op: "advance", DurUs: et}, true
				}
				// the leader's requests are lost: it appends entries nobody receives
				g.queue = append([]step{
					submitAt(l, "write"), advance(2000),
					lit(Action{Op: "crash", Node: l}),
					advance(g.dur("d", 2*et, 3*et)),
					submitAt("leader", "write"), advance(g.dur("d2", 1000, hb)),
					lit(Action{Op: "restart", Node: l}),
					lit(Action{Op: "heal", Mode: "drop"}),
					advance(g.dur("d3", hb, et)),
				}, g.queue...)
				return Action{Op: "isolate", Node: l, Mode: "drop", Dir: "out"}, true
			})
		}
	case "stopstart":
		id := g.pick("victim", g.running(v))
		if id == "" {
			return
		}
		g.push("stopstart", lit(Action{Op: "stop", Node: id}), advance(g.dur("d", 2*et+1000, 3*et)), lit(Action{Op: "restart", Node: id}), advance(g.dur("d2", hb, et)))
	case "reads": // reads and writes racing at every node
		n := rapid.IntRange(2, 8).Draw(t, "n")
		var st []step
		for i := 0; i < n; i++ {
			kinds := append([]string{"write"}, g.readKinds()...)
			st = append(st, submitAt(rapid.SampledFrom([]string{"leader", "any", "anyleader"}).Draw(t, "sel"), rapid.SampledFrom(kinds).Draw(t, "kind")))
			if rapid.Bool().Draw(t, "gap") {
				st = append(st, advance(g.dur("d", 500, 5000, hb)))
			}
		}
		g.push("reads", st...)
	default:
		panic("unknown pattern " + pat)
	}
}

func (g *Gen) membershipSteps(v View) []step {
	t := g.T
	et, hb := g.etUs(), g.hbUs()
	var st []step
	var reqInner step
	req := func() step {
		return func(g *Gen, v View) (Action, bool) {
			if g.P.MemberRetry && g.lastMember != nil && rapid.IntRange(0, 3).Draw(g.T, "mretry") == 0 {
				// the same request once more, to the same node: a client that retries while its first
				// request may still be pending (the leader's configuration already shows the change)
				a := *g.lastMember
				a.Client, a.Timeout = g.nextClient(), g.timeout()
				g.Pats["member-retry"]++
				return a, true
			}
			a, ok := reqInner(g, v)
			if ok && a.Op == "add" {
				c := a
				g.lastMember = &c
			}
			return a, ok
		}
	}
	reqInner = func(g *Gen, v View) (Action, bool) {
		{
			at := v.Leader()
			if at == "" || rapid.IntRange(0, 5).Draw(g.T, "anyTarget") == 0 {
				at = g.anyNode("at")
			}
			// candidates: existing members (remove / promote) and one fresh id (add)
			members := map[string]bool{}
			if cf := v.Conf[at]; cf != nil {
				for id, voter := range cf.Members {
					members[id] = voter
				}
			}
			kind := rapid.SampledFrom([]string{"addnv", "addv", "promote", "remove", "remove", "addv", "demote"}).Draw(g.T, "mkind")
			fresh := ""
			for i := 0; i < 7; i++ {
				id := nodeID(i)
				if _, ok := members[id]; !ok {
					if n := g.C.Nodes[id]; n != nil && n.everStarted {
						fresh = id // only nodes that exist are added
					}
					break
				}
			}
			switch kind {
			case "addnv", "addv":
				if fresh == "" {
					kind = "remove"
					break
				}
				return Action{Op: "add", Node: at, Node2: fresh, Voter: kind == "addv", Client: g.nextClient(), Timeout: g.timeout()}, true
			case "demote":
				// AddServer(existing voter, isVoter=false) turns a voter - possibly the leader itself - into a non-voter
				var vs []string
				nv := 0
				for id, voter := range members {
					if voter {
						vs = append(vs, id)
						nv++
					}
				}
				sort.Strings(vs)
				if nv <= 1 {
					kind = "remove"
					break
				}
				return Action{Op: "add", Node: at, Node2: g.pick("dv", vs), Voter: false, Client: g.nextClient(), Timeout: g.timeout()}, true
			case "promote":
				var nv []string
				for id, voter := range members {
					if !voter {
						nv = append(nv, id)
					}
				}
				sort.Strings(nv)
				if len(nv) == 0 {
					kind = "remove"
					break
				}
				return Action{Op: "add", Node: at, Node2: g.pick("nv", nv), Voter: true, Client: g.nextClient(), Timeout: g.timeout()}, true
			}
			var ms []string
			voters := 0
			for _, voter := range members {
				if voter {
					voters++
				}
			}
			for id, voter := range members {
				if voter && voters <= 1 {
					continue // removing the last voting member leaves a cluster that cannot do anything
				}
				ms = append(ms, id)
			}
			sort.Strings(ms)
			if len(ms) < 1 {
				return Action{Op: "advance", DurUs: hb}, true
			}
			return Action{Op: "remove", Node: at, Node2: g.pick("rm", ms), Client: g.nextClient(), Timeout: g.timeout()}, true
		}
	}
	// start the nodes that an add may refer to (documentation: new nodes are started empty): every
	// id that is not running and was never started, up to the first id that is not a member anywhere
	startFresh := func(g *Gen, v View) (Action, bool) {
		members := map[string]bool{}
		for _, cf := range v.Conf {
			for id := range cf.Members {
				members[id] = true
			}
		}
		for i := 0; i < 7; i++ {
			id := nodeID(i)
			n := g.C.Nodes[id]
			if n == nil || (!n.everStarted && n.Stopped()) {
				return Action{Op: "startempty", Node: id}, true
			}
			if !members[id] {
				break // a started node that is not a member yet: the next add will pick it
			}
		}
		return Action{Op: "advance", DurUs: 1000}, true
	}
	st = append(st, startFresh, req())
	switch rapid.IntRange(0, 4).Draw(t, "mfault") {
	case 0:
		st = append(st, advance(g.dur("d", 1000, hb, et)))
	case 1: // partition before the entry commits
		st = append(st, func(g *Gen, v View) (Action, bool) {
			l := v.Leader()
			if l == "" {
				return Action{Op: "advance", DurUs: hb}, true
			}
			return Action{Op: "isolate", Node: l, Mode: g.holdMode("mode")}, true
		}, advance(g.dur("d", et, 2*et, 3*et)), req(), advance(g.dur("d2", hb, et)), lit(Action{Op: "heal", Mode: rapid.SampledFrom([]string{"deliver", "drop"}).Draw(t, "heal")}))
	case 2: // back-to-back requests
		st = append(st, req(), advance(g.dur("d", 1000, hb)), req(), advance(g.dur("d2", hb, et)))
	case 3: // leader crash right after the request
		if g.P.Crashes {
			st = append(st, func(g *Gen, v View) (Action, bool) {
				l := v.Leader()
				if l == "" {
					return Action{Op: "advance", DurUs: hb}, true
				}
				g.queue = append([]step{advance(2 * et), lit(Action{Op: "restart", Node: l}), advance(et)}, g.queue...)
				return Action{Op: "crash", Node: l}, true
			})
		}
		st = append(st, advance(g.dur("d", hb, et)), req())
	case 4: // drop links to a minority while the change is in flight
		st = append(st, func(g *Gen, v View) (Action, bool) {
			return Action{Op: "isolate", Node: g.anyNode("iso"), Mode: g.holdMode("mode"), Dir: rapid.SampledFrom([]string{"both", "in", "out"}).Draw(g.T, "dir")}, true
		}, advance(g.dur("d", hb, et, 2*et)), req(), advance(g.dur("d2", hb, et)), lit(Action{Op: "heal", Mode: "deliver"}))
	}
	st = append(st, advance(g.dur("dm", hb, et)))
	return st
}

// stickySteps implements the C16 schedule: establish T0 (stable leader, everybody in its term),
// optionally remove one voter (it keeps running), then let only nodes outside the leader's
// majority misbehave. Links between majority nodes are never touched.
func (g *Gen) stickySteps(v View) []step {
	t := g.T
	et, hb := g.etUs(), g.hbUs()
	var st []step
	if g.sticky == nil {
		// T0
		tries := 0
		var setup step
		setup = func(g *Gen, v View) (Action, bool) {
			l := v.Leader()
			stable := l != ""
			if stable {
				for _, s := range v.Status {
					if s.Term != v.Status[l].Term || (s.State != "follower" && s.State != "leader") {
						stable = false
					}
				}
			}
			tries++
			if !stable && tries < 40 {
				g.queue = append([]step{setup}, g.queue...)
				return Action{Op: "advance", DurUs: et / 2}, true
			}
			if !stable {
				return Action{Op: "advance", DurUs: et}, true
			}
			cf := v.Conf[l]
			var voters, others []string
			for id, isVoter := range cf.Members {
				if isVoter && id != l {
					voters = append(voters, id)
				} else if id != l {
					others = append(others, id)
				}
			}
			sort.Strings(voters)
			sort.Strings(others)
			g.sticky = &stickyState{leader: l}
			// optionally remove one voter through the public API; it keeps running
			if len(voters) >= 3 && rapid.Bool().Draw(g.T, "withRemoved") {
				victim := g.pick("removed", voters)
				g.sticky.removed = victim
				g.sticky.pendingMark = true
				g.queue = append([]step{
					advance(4 * hb), advance(4 * hb),
					func(g *Gen, v View) (Action, bool) { return g.stickyMark(v), true },
				}, g.queue...)
				return Action{Op: "remove", Node: l, Node2: victim, Client: 8, Timeout: 200}, true
			}
			return g.stickyMark(v), true
		}
		// history before T0 (inside the property's precondition as long as everybody ends up in one term
		// before the mark): the first leader is deposed and rejoins once or twice, so that the steady-state
		// leader has a predecessor, nodes have voted for different candidates, logs were repaired
		if len(g.C.Order) >= 3 {
			for k := rapid.IntRange(0, 2).Draw(t, "preHistory"); k > 0; k-- {
				st = append(st, func(g *Gen, v View) (Action, bool) {
					l := v.Leader()
					if l == "" {
						return Action{Op: "advance", DurUs: et}, true
					}
					return Action{Op: "isolate", Node: l, Mode: "drop"}, true
				}, submitAt("any", "write"), advance(g.dur("pre1", 2*et, 3*et)), submitAt("leader", "write"),
					lit(Action{Op: "heal", Mode: "drop"}), advance(g.dur("pre2", 2*et, 4*et)))
			}
		}
		st = append(st, setup)
	}
	n := rapid.IntRange(4, 25).Draw(t, "stickySteps")
	for i := 0; i < n; i++ {
		st = append(st, func(g *Gen, v View) (Action, bool) {
			if g.sticky == nil || len(g.sticky.bad) == 0 || g.sticky.pendingMark {
				return Action{Op: "advance", DurUs: hb}, true
			}
			// a hiccup inside the majority: the link between the leader and one of its majority loses everything for
			// less than half an election timeout (both still hear each other within every election timeout: that is
			// "prompt contact" by the library's own rule); it is restored by the very next step
			if g.sticky.hiccupNode != "" {
				m := g.sticky.hiccupNode
				g.sticky.hiccupNode = ""
				// ... and contact is re-established before anything else happens
				g.queue = append([]step{lit(Action{Op: "link", Node: m, Node2: g.sticky.leader, Mode: "prompt"}), advance(3*hb + 2000)}, g.queue...)
				return Action{Op: "link", Node: g.sticky.leader, Node2: m, Mode: "prompt"}, true
			}
			x := g.pick("bad", g.sticky.bad)
			switch rapid.SampledFrom([]string{"isolate", "isolate", "isolate", "reconnect", "reconnect", "advance", "advance", "advance", "crash", "stop", "restart", "restart", "release", "hiccup", "hiccup", "hiccup", "deafen"}).Draw(g.T, "sticky") {
			case "deafen":
				// x no longer hears anybody but is heard: from an election timeout later on it keeps asking for votes
				return Action{Op: "isolate", Node: x, Mode: "drop", Dir: "in"}, true
			case "hiccup":
				if len(g.sticky.good) > 0 {
					m := g.pick("hiccupAt", g.sticky.good)
					g.sticky.hiccupNode = m
					d := g.dur("hiccup", et/4, et/3, et/2, et-3*hb-int64(g.C.H.MaxDelayUs))
					if d < hb {
						d = hb
					}
					g.queue = append([]step{lit(Action{Op: "link", Node: m, Node2: g.sticky.leader, Mode: "drop"}), advance(d)}, g.queue...)
					return Action{Op: "link", Node: g.sticky.leader, Node2: m, Mode: "drop"}, true
				}
			case "isolate":
				return Action{Op: "isolate", Node: x, Mode: rapid.SampledFrom([]string{"drop", "drop", "held"}).Draw(g.T, "mode"), Dir: rapid.SampledFrom([]string{"both", "in", "out"}).Draw(g.T, "dir")}, true
			case "reconnect":
				return Action{Op: "reconnect", Node: x, Mode: rapid.SampledFrom([]string{"deliver", "drop"}).Draw(g.T, "rmode")}, true
			case "crash":
				if n := g.C.Nodes[x]; n != nil && n.Running() {
					return Action{Op: "crash", Node: x}, true
				}
			case "stop":
				if n := g.C.Nodes[x]; n != nil && n.Running() {
					return Action{Op: "stop", Node: x}, true
				}
			case "restart":
				if n := g.C.Nodes[x]; n != nil && n.Stopped() && n.everStarted {
					return Action{Op: "restart", Node: x}, true
				}
			case "release":
				if held := g.C.net.Held(); len(held) > 0 {
					i := rapid.IntRange(0, len(held)-1).Draw(g.T, "msg")
					return Action{Op: "release", Sel: i, Desc: held[i].Desc(), Mode: rapid.SampledFrom([]string{"deliver", "drop", "dup"}).Draw(g.T, "rel")}, true
				}
			}
			return Action{Op: "advance", DurUs: g.dur("stickyAdv", 1000, hb, et/2, et, et+1000, 2*et, 3*et, 5*et, 10*et, 20*et)}, true
		})
	}
	return st
}

type stickyState struct {
	leader      string
	removed     string
	bad         []string
	good        []string // the leader's majority (without the leader)
	pendingMark bool
	hiccupUntil int // steps until the link that has a hiccup is restored
	hiccupNode  string
}

// stickyMark fixes the leader's majority and the set of nodes that may misbehave, and records T0.
func (g *Gen) stickyMark(v View) Action {
	l := g.sticky.leader
	g.sticky.pendingMark = false
	cf := v.Conf[l]
	if cf == nil || v.Status[l].State != "leader" {
		g.sticky = nil
		return Action{Op: "advance", DurUs: g.hbUs()}
	}
	var voters []string
	bad := map[string]bool{}
	for _, id := range g.C.Order {
		if id == l {
			continue
		}
		if isVoter, member := cf.Members[id]; member && isVoter {
			voters = append(voters, id)
		} else {
			bad[id] = true // non-voters, removed nodes, nodes that never joined
		}
	}
	sort.Strings(voters)
	nv := len(voters) + 1
	minority := (nv - 1) / 2
	k := 0
	if minority > 0 {
		k = rapid.IntRange(0, minority).Draw(g.T, "minority")
	}
	perm := rapid.Permutation(voters).Draw(g.T, "minorityPick")
	for _, id := range perm[:k] {
		bad[id] = true
	}
	var good []string
	for _, id := range voters {
		if !bad[id] {
			good = append(good, id)
		}
	}
	for id := range bad {
		g.sticky.bad = append(g.sticky.bad, id)
	}
	sort.Strings(g.sticky.bad)
	g.sticky.good = good
	return Action{Op: "mark", Node: l, Set: good, Desc: "T0"}
}

// apiAction draws one raw API call (or a little cluster activity between calls).
func (g *Gen) apiAction(v View) Action {
	t := g.T
	et, hb := g.etUs(), g.hbUs()
	node := g.anyNode("apiNode")
	timeouts := []int{0, -1000, 1, 50, 300, 2000}
	switch rapid.SampledFrom([]string{"status", "configuration", "render", "submit", "submit", "submit", "member", "member", "memberapi", "bootstrap", "start", "restart", "restart", "stop", "stop", "newraft",
		"advance", "advance", "advance", "isolate", "heal", "crash", "noderestart"}).Draw(t, "api") {
	case "status":
		return Action{Op: "api", Kind: "status", Node: node}
	case "configuration":
		return Action{Op: "api", Kind: "configuration", Node: node}
	case "render":
		return Action{Op: "api", Kind: "render", Node: node}
	case "submit":
		return Action{Op: "api", Kind: "submit", Node: node, K: rapid.SampledFrom([]int{0, 0, 1, 2, 99, 3}).Draw(t, "optype"),
			Mode: rapid.SampledFrom([]string{"small", "nil", "empty", "large"}).Draw(t, "payload"), Timeout: rapid.SampledFrom(timeouts).Draw(t, "timeout")}
	case "member":
		// a well-formed membership request (recorded as client invoke/return so that the "must resolve" rule applies)
		at := v.Leader()
		if at == "" || rapid.IntRange(0, 3).Draw(t, "anyAt") == 0 {
			at = node
		}
		ms := g.membershipSteps(v)
		a, _ := ms[1](g, View{Status: v.Status, Conf: v.Conf})
		if a.Op == "add" || a.Op == "remove" {
			a.Node = at
			a.Timeout = rapid.SampledFrom([]int{50, 300, 2000}).Draw(t, "mtimeout")
			return a
		}
		return Action{Op: "advance", DurUs: hb}
	case "memberapi":
		return Action{Op: "api", Kind: rapid.SampledFrom([]string{"add", "remove"}).Draw(t, "mk"), Node: node,
			Node2: rapid.SampledFrom([]string{"", "n9", node, "n1", "n2"}).Draw(t, "mid"), Voter: rapid.Bool().Draw(t, "mvoter"), Timeout: rapid.SampledFrom(timeouts).Draw(t, "timeout")}
	case "bootstrap":
		return Action{Op: "api", Kind: "bootstrap", Node: node, Mode: rapid.SampledFrom([]string{"valid", "missing-self", "wrong-address", "empty"}).Draw(t, "bmode")}
	case "start":
		return Action{Op: "api", Kind: "start", Node: node}
	case "restart":
		return Action{Op: "api", Kind: "restart", Node: node}
	case "stop":
		return Action{Op: "api", Kind: "stop", Node: node}
	case "newraft":
		return Action{Op: "api", Kind: "newraft", Node: node, Mode: rapid.SampledFrom([]string{"valid", "nil-log", "nil-state", "nil-snapshots", "nil-transport", "bad-address", "empty-address", "zero-timeouts"}).Draw(t, "nmode")}
	case "isolate":
		return Action{Op: "isolate", Node: node, Mode: g.holdMode("mode"), Dir: rapid.SampledFrom([]string{"both", "in", "out"}).Draw(t, "dir")}
	case "heal":
		return Action{Op: "heal", Mode: "deliver"}
	case "crash":
		if n := g.C.Nodes[node]; n != nil && n.Running() {
			return Action{Op: "crash", Node: node}
		}
	case "noderestart":
		if n := g.C.Nodes[node]; n != nil && n.Stopped() && n.everStarted {
			return Action{Op: "restart", Node: node}
		}
	}
	return Action{Op: "advance", DurUs: g.dur("apiAdv", 1000, hb, et/2, et, 2*et)}
}

// freeAction draws one action uniformly over what is enabled.
func (g *Gen) freeAction(v View) Action {
	t := g.T
	et, hb := g.etUs(), g.hbUs()
	opts := []string{"advance", "advance", "advance", "link", "isolate", "heal", "reconnect"}
	if g.P.Writes {
		opts = append(opts, "submit", "submit", "submit")
	}
	if len(g.readKinds()) > 0 {
		opts = append(opts, "read", "read")
	}
	if len(g.C.net.Held()) > 0 {
		opts = append(opts, "release", "release", "release", "release")
	}
	if g.P.Crashes {
		opts = append(opts, "crash", "armcrash")
	}
	if g.P.Stops {
		opts = append(opts, "stop")
	}
	if len(g.stoppedNodes()) > 0 {
		opts = append(opts, "restart", "restart", "restart")
	}
	if g.P.Snapshots != "" {
		opts = append(opts, "armsnap")
	}
	if g.P.Membership {
		opts = append(opts, "member")
	}
	switch rapid.SampledFrom(opts).Draw(t, "free") {
	case "advance":
		return Action{Op: "advance", DurUs: g.dur("adv", 1000, 10000, hb, et/2, et, 2*et)}
	case "link":
		a := g.anyNode("a")
		b := g.pick("b", g.C.others(a))
		modes := []string{"prompt", "held", "drop", "noreq"}
		if g.P.BoundedNet {
			modes = []string{"prompt", "drop", "noreq"}
		}
		return Action{Op: "link", Node: a, Node2: b, Mode: rapid.SampledFrom(modes).Draw(t, "lmode")}
	case "isolate":
		return Action{Op: "isolate", Node: g.anyNode("iso"), Mode: g.holdMode("mode"), Dir: rapid.SampledFrom([]string{"both", "in", "out"}).Draw(t, "dir")}
	case "heal":
		return Action{Op: "heal", Mode: rapid.SampledFrom([]string{"deliver", "drop"}).Draw(t, "heal")}
	case "reconnect":
		return Action{Op: "reconnect", Node: g.anyNode("rc"), Mode: rapid.SampledFrom([]string{"deliver", "drop"}).Draw(t, "rmode")}
	case "submit":
		a, _ := submitAt(rapid.SampledFrom([]string{"leader", "leader", "any", "anyleader"}).Draw(t, "sel"), "write")(g, v)
		return a
	case "read":
		a, _ := submitAt(rapid.SampledFrom([]string{"leader", "any", "anyleader"}).Draw(t, "sel"), rapid.SampledFrom(g.readKinds()).Draw(t, "rkind"))(g, v)
		return a
	case "release":
		held := g.C.net.Held()
		i := rapid.IntRange(0, len(held)-1).Draw(t, "msg")
		return Action{Op: "release", Sel: i, Desc: held[i].Desc(), Mode: rapid.SampledFrom([]string{"deliver", "deliver", "deliver", "drop", "dup"}).Draw(t, "rel")}
	case "crash":
		if ids := g.running(v); len(ids) > 0 {
			return Action{Op: "crash", Node: g.pick("victim", ids)}
		}
	case "armcrash":
		if ids := g.running(v); len(ids) > 0 {
			return Action{Op: "armcrash", Node: g.pick("victim", ids), K: rapid.IntRange(1, 10).Draw(t, "k"), Before: rapid.Bool().Draw(t, "before")}
		}
	case "stop":
		if ids := g.running(v); len(ids) > 0 {
			return Action{Op: "stop", Node: g.pick("victim", ids)}
		}
	case "restart":
		return Action{Op: "restart", Node: g.pick("rs", g.stoppedNodes())}
	case "armsnap":
		if ids := g.running(v); len(ids) > 0 {
			return Action{Op: "armsnap", Node: g.pick("sn", ids)}
		}
	case "member":
		st := g.membershipSteps(v)
		g.queue = append(st[1:], g.queue...)
		a, _ := st[0](g, v)
		return a
	}
	return Action{Op: "advance", DurUs: hb}
}

// Next returns the next action of the schedule, or false when it is over.
func (g *Gen) Next(v View) (Action, bool) {
	for len(g.queue) == 0 {
		if g.phases <= 0 {
			return Action{}, false
		}
		g.phases--
		pat := rapid.SampledFrom(g.P.Patterns).Draw(g.T, "pattern")
		g.expand(pat, v)
	}
	s := g.queue[0]
	g.queue = g.queue[1:]
	return s(g, v)
}
