package sim

import (
	"encoding/binary"
	"errors"
	"fmt"
	"hash/fnv"
	"io"
	"sync"
	"time"

	"github.com/jmsadair/raft"
)

// LedgerItem is one applied replicated operation.
type LedgerItem struct {
	Index uint64
	Term  uint64
	H     uint64
}

// ReadResult is what a read-only operation returns: the ledger length and the
// index of the last applied operation visible to the read.
type ReadResult struct {
	Len  int
	Last uint64
}

// FSMDelays are virtual delays placed inside state-machine calls ("slow state
// machine"). They are taken outside the FSM's own lock.
type FSMDelays struct {
	ApplyPre, ApplyPost, SnapPre, SnapPost, Restore time.Duration
}

// LedgerFSM's state is the ordered list of applied operations: an injective
// function of the application history, so that lost, duplicated, reordered or
// extra applications are all visible in the state.
type LedgerFSM struct {
	in      *Instance
	id      int
	mu      sync.Mutex
	ledger  []LedgerItem
	delays  FSMDelays
	armed   bool
	thresh  int // NeedSnapshot when logSize >= thresh (0 = off)
	padding int
	snaps   int
}

func (f *LedgerFSM) live() bool { return !f.in.dead.Load() }

func (f *LedgerFSM) Apply(op *raft.Operation) interface{} {
	c := f.in.node.c
	if op.OperationType != raft.Replicated {
		f.mu.Lock()
		n := len(f.ledger)
		var last uint64
		if n > 0 {
			last = f.ledger[n-1].Index
		}
		f.mu.Unlock()
		if f.live() {
			c.rec.Add(Event{Kind: "apply", Node: f.in.node.ID, Inc: f.in.inc,
				Apply: &ApplyInfo{FSM: f.id, Index: last, Result: n, Read: true, RType: uint32(op.OperationType), H: HashBytes(op.Bytes)}})
		}
		return ReadResult{Len: n, Last: last}
	}
	h := HashBytes(op.Bytes)
	if f.live() {
		c.rec.Add(Event{Kind: "apply", Node: f.in.node.ID, Inc: f.in.inc,
			Apply: &ApplyInfo{FSM: f.id, Index: op.LogIndex, Term: op.LogTerm, H: h, Begin: true}})
	}
	if f.delays.ApplyPre > 0 {
		time.Sleep(f.delays.ApplyPre)
	}
	f.mu.Lock()
	f.ledger = append(f.ledger, LedgerItem{Index: op.LogIndex, Term: op.LogTerm, H: h})
	n := len(f.ledger)
	f.mu.Unlock()
	if f.live() {
		c.onApply(f.in, op.LogIndex, op.LogTerm, h)
		c.rec.Add(Event{Kind: "apply", Node: f.in.node.ID, Inc: f.in.inc,
			Apply: &ApplyInfo{FSM: f.id, Index: op.LogIndex, Term: op.LogTerm, H: h, Result: n}})
	}
	if f.delays.ApplyPost > 0 {
		time.Sleep(f.delays.ApplyPost)
	}
	return n
}

func (f *LedgerFSM) Snapshot(w io.Writer) error {
	c := f.in.node.c
	if f.live() {
		c.rec.Add(Event{Kind: "fsmsnap", Node: f.in.node.ID, Inc: f.in.inc, Restore: &RestoreInfo{FSM: f.id, Begin: true}})
	}
	// always let at least one odd nanosecond pass so that two local snapshots of one
	// node never fall on the same virtual instant (hazard 2 in DESIGN.md)
	time.Sleep(f.delays.SnapPre + time.Nanosecond)
	f.mu.Lock()
	items := append([]LedgerItem(nil), f.ledger...)
	f.armed = false
	f.snaps++
	f.mu.Unlock()
	if f.delays.SnapPost > 0 {
		time.Sleep(f.delays.SnapPost)
	}
	b := EncodeLedger(items, f.padding)
	if f.live() {
		var last uint64
		if len(items) > 0 {
			last = items[len(items)-1].Index
		}
		c.rec.Add(Event{Kind: "fsmsnap", Node: f.in.node.ID, Inc: f.in.inc, Restore: &RestoreInfo{FSM: f.id, Len: len(items), Last: last, H: ledgerHash(items)}})
	}
	// several writes so that a crash can fall between them
	const piece = 20000
	for off := 0; off < len(b); off += piece {
		end := off + piece
		if end > len(b) {
			end = len(b)
		}
		if _, err := w.Write(b[off:end]); err != nil {
			return err
		}
	}
	if len(b) == 0 {
		_, err := w.Write(nil)
		return err
	}
	return nil
}

func (f *LedgerFSM) Restore(r io.Reader) error {
	c := f.in.node.c
	b, err := io.ReadAll(r)
	if err != nil {
		return err
	}
	items, err := DecodeLedger(b)
	if err != nil {
		if f.live() {
			c.rec.Add(Event{Kind: "restore", Node: f.in.node.ID, Inc: f.in.inc, Restore: &RestoreInfo{FSM: f.id}, Note: "decode error: " + err.Error()})
		}
		return nil // the oracle reports it; do not make the library abort
	}
	if f.live() {
		c.rec.Add(Event{Kind: "restore", Node: f.in.node.ID, Inc: f.in.inc, Restore: &RestoreInfo{FSM: f.id, Begin: true}})
	}
	// no (virtual) sleep while the library holds the node's mutex: restore() at NewRaft / Start /
	// Restart calls Restore under it, and a goroutine waiting for a mutex is not durably blocked,
	// so the bubble's clock would stop for ever. InstallSnapshot calls Restore with the mutex released.
	if f.delays.Restore > 0 && f.in.started.Load() && !calledFrom("jmsadair/raft.(*Raft).restore") {
		time.Sleep(f.delays.Restore)
	}
	f.mu.Lock()
	f.ledger = items
	f.mu.Unlock()
	if f.live() {
		var last uint64
		if len(items) > 0 {
			last = items[len(items)-1].Index
		}
		idx := make([]uint64, len(items))
		for i, it := range items {
			idx[i] = it.Index
		}
		c.rec.Add(Event{Kind: "restore", Node: f.in.node.ID, Inc: f.in.inc,
			Restore: &RestoreInfo{FSM: f.id, Len: len(items), Last: last, H: ledgerHash(items)}, Snap: &SnapInfo{Ledger: idx}})
	}
	return nil
}

func (f *LedgerFSM) NeedSnapshot(logSize int) bool {
	f.mu.Lock()
	defer f.mu.Unlock()
	want := f.armed || (f.thresh > 0 && logSize >= f.thresh)
	if !want {
		return false
	}
	// never let two snapshot files of one node be created at the same virtual instant
	f.in.node.smu.Lock()
	same := f.in.node.lastSnapNano == time.Now().UnixNano()
	f.in.node.smu.Unlock()
	return !same
}

func (f *LedgerFSM) Arm() {
	f.mu.Lock()
	f.armed = true
	f.mu.Unlock()
}

func (f *LedgerFSM) Ledger() []LedgerItem {
	f.mu.Lock()
	defer f.mu.Unlock()
	return append([]LedgerItem(nil), f.ledger...)
}

// ---------------------------------------------------------------- encoding

var ledgerMagic = []byte("LEDG")

// EncodeLedger writes magic, count, items and padding (a deterministic pattern).
func EncodeLedger(items []LedgerItem, padding int) []byte {
	b := make([]byte, 0, 12+24*len(items)+padding)
	b = append(b, ledgerMagic...)
	b = binary.BigEndian.AppendUint32(b, uint32(len(items)))
	for _, it := range items {
		b = binary.BigEndian.AppendUint64(b, it.Index)
		b = binary.BigEndian.AppendUint64(b, it.Term)
		b = binary.BigEndian.AppendUint64(b, it.H)
	}
	b = binary.BigEndian.AppendUint32(b, uint32(padding))
	for i := 0; i < padding; i++ {
		b = append(b, byte(i*7+len(items)))
	}
	return b
}

func DecodeLedger(b []byte) ([]LedgerItem, error) {
	if len(b) < 8 || string(b[:4]) != string(ledgerMagic) {
		return nil, errors.New("ledger: bad magic or short payload")
	}
	n := int(binary.BigEndian.Uint32(b[4:]))
	off := 8
	if len(b) < off+24*n+4 {
		return nil, fmt.Errorf("ledger: truncated: %d items need %d bytes, have %d", n, off+24*n+4, len(b))
	}
	items := make([]LedgerItem, n)
	for i := range items {
		items[i] = LedgerItem{binary.BigEndian.Uint64(b[off:]), binary.BigEndian.Uint64(b[off+8:]), binary.BigEndian.Uint64(b[off+16:])}
		off += 24
	}
	pad := int(binary.BigEndian.Uint32(b[off:]))
	off += 4
	if len(b) != off+pad {
		return nil, fmt.Errorf("ledger: padding length %d but %d bytes remain", pad, len(b)-off)
	}
	for i := 0; i < pad; i++ {
		if b[off+i] != byte(i*7+n) {
			return nil, fmt.Errorf("ledger: padding byte %d corrupted", i)
		}
	}
	return items, nil
}

func ledgerHash(items []LedgerItem) uint64 {
	h := fnv.New64a()
	var buf [24]byte
	for _, it := range items {
		binary.BigEndian.PutUint64(buf[0:], it.Index)
		binary.BigEndian.PutUint64(buf[8:], it.Term)
		binary.BigEndian.PutUint64(buf[16:], it.H)
		h.Write(buf[:])
	}
	return h.Sum64()
}
