package sim

import (
	"errors"
	"fmt"
	"math/rand"
	"os"
	"path/filepath"
	"sort"
	"sync"
	"sync/atomic"
	"testing/synctest"
	"time"

	"github.com/jmsadair/raft"
	"github.com/jmsadair/raft/logging"
)

// Header is the drawn configuration of one case.
type Header struct {
	Voters         int      `json:"voters"`
	NonVoters      int      `json:"non_voters,omitempty"` // added by AddServer(…, false) in the prologue
	ET             int      `json:"et_ms"`
	HB             int      `json:"hb_ms"`
	LD             int      `json:"ld_ms"`
	TimerSeed      int64    `json:"timer_seed"`
	Tape           []byte   `json:"tape"`
	MaxDelayUs     int      `json:"max_delay_us"`
	Delays         [5]int64 `json:"fsm_delays_ns,omitempty"` // applyPre, applyPost, snapPre, snapPost, restore
	SnapThresh     int      `json:"snap_thresh,omitempty"`
	Padding        int      `json:"padding,omitempty"`
	DiskCheck      bool     `json:"disk_check,omitempty"`
	DynamicMembers bool     `json:"dynamic_members,omitempty"`
	// KeepDown: how many of the nodes that are down when the faults stop stay down in the fault-free
	// period (the most recently stopped first), as far as a majority of the voters of every configuration
	// in use still runs (C15 only asks for a running majority)
	KeepDown int  `json:"keep_down,omitempty"`
	Single   bool `json:"single_bootstrap,omitempty"` // bootstrap one node, add the others through AddServer
}

// Instance is one incarnation of a node: one raft.Raft value with its state
// machine, transport and storage wrappers.
type Instance struct {
	node *Node
	inc  int
	raft *raft.Raft
	fsm  *LedgerFSM
	tr   *SimTransport

	dead      atomic.Bool // crashed: a zombie whose outputs are all discarded
	started   atomic.Bool
	stopping  atomic.Bool
	stopped   atomic.Bool
	stopCalls atomic.Int32

	smu         sync.Mutex
	opmu        sync.Mutex
	opCount     int
	crashArmed  bool
	crashAt     int
	crashBefore bool
	crashTorn   int // > 0: if the armed operation is a log append, the process dies *inside* it: the image keeps a torn tail (cut selector)
	stateRead   bool
	ctx         string
}

func (in *Instance) setCtx(s string) {}

// Node is one server identity across incarnations.
type Node struct {
	ID  string
	c   *Cluster
	dir string // the directory the current / next incarnation runs on
	cur *Instance
	inc int

	smu          sync.Mutex
	curShared    *Instance // copy of cur for concurrent readers (stress goroutines), guarded by smu
	lastSnapNano int64
	lastISNano   int64
	crashInfo    string // description of the last storage-boundary crash
	crashMid     bool
	everStarted  bool
	downSeq      atomic.Int64 // order in which nodes went down (0 = never)
}

// Current returns the node's current instance (safe for concurrent readers).
func (n *Node) Current() *Instance {
	n.smu.Lock()
	defer n.smu.Unlock()
	return n.curShared
}

func (n *Node) Running() bool {
	in := n.cur
	return in != nil && in.started.Load() && !in.dead.Load() && !in.stopping.Load()
}

func (n *Node) Stopped() bool {
	in := n.cur
	return in == nil || in.dead.Load() || in.stopped.Load() || !in.started.Load()
}

// Raft returns the live raft value (nil if the node is not running).
func (n *Node) Raft() *raft.Raft {
	if !n.Running() {
		return nil
	}
	return n.cur.raft
}

type Cluster struct {
	H     Header
	Base  string
	Nodes map[string]*Node
	Order []string // node ids in canonical order (n1, n2, ...)
	net   *Network
	rec   *Recorder
	start time.Time

	mu       sync.Mutex
	wg       sync.WaitGroup
	tainted  string
	fileSeq  int
	fsmSeq   int
	opSeq    int
	imgSeq   int
	pending  int // client calls in flight
	firstApp map[uint64]bool
	conf     map[string]bool // static voter set for the disk oracle (C04)

	lastStatus map[string]StatusInfo
	lastConf   map[string]string

	Script []Action

	Extra        []Violation // violations found by property hooks (epilogue checks)
	shutdownDone bool
	// Hang is set when the case could not be shut down (a Stop() that never returns, ...)
	Hang string

	// ErrStart collects NewRaft/Start failures (C13/C14 oracle input)
	StartErrors []string

	Labels map[string]int
}

func (c *Cluster) Net() *Network      { return c.net }
func (c *Cluster) Rec() *Recorder     { return c.rec }
func (c *Cluster) Now() time.Duration { return time.Since(c.start) }

// AddViolation lets a property hook report a violation of its own.
func (c *Cluster) AddViolation(v Violation) {
	c.mu.Lock()
	c.Extra = append(c.Extra, v)
	c.mu.Unlock()
}

// FSMLedger returns the applied operations of the node's current state machine.
func (c *Cluster) FSMLedger(id string) []LedgerItem {
	n := c.Nodes[id]
	if n == nil || n.cur == nil {
		return nil
	}
	return n.cur.fsm.Ledger()
}

// SubmitWait submits a write and waits (in virtual time) for its outcome.
func (c *Cluster) SubmitWait(target string, timeout time.Duration) (ok bool, index uint64, outcome string) {
	n := c.Nodes[target]
	if n == nil || !n.Running() {
		return false, 0, "notrunning"
	}
	before := c.rec.Len()
	c.Submit(7, target, "write", timeout)
	deadline := c.Now() + timeout + 10*time.Millisecond
	for c.Now() < deadline {
		c.Advance(5 * time.Millisecond)
		h := c.rec.Since(before)
		for i := 0; i < len(h); i++ {
			if h[i].Kind == "return" && h[i].Client.Client == 7 && h[i].Client.Target == target {
				return h[i].Client.Outcome == "ok", h[i].Client.Index, h[i].Client.Outcome
			}
		}
	}
	return false, 0, "noreturn"
}

func (c *Cluster) Label(l string) {
	c.mu.Lock()
	c.Labels[l]++
	c.mu.Unlock()
}

func (c *Cluster) taint(why string) {
	c.mu.Lock()
	if c.tainted == "" {
		c.tainted = why
	}
	c.mu.Unlock()
}

func (c *Cluster) Tainted() string {
	c.mu.Lock()
	defer c.mu.Unlock()
	return c.tainted
}

// goTracked runs f in a goroutine the case waits for before it ends.
func (c *Cluster) goTracked(f func()) {
	c.wg.Add(1)
	go func() {
		defer c.wg.Done()
		f()
	}()
}

func (c *Cluster) ET() time.Duration { return time.Duration(c.H.ET) * time.Millisecond }
func (c *Cluster) HB() time.Duration { return time.Duration(c.H.HB) * time.Millisecond }
func (c *Cluster) LD() time.Duration { return time.Duration(c.H.LD) * time.Millisecond }

func nodeID(i int) string { return fmt.Sprintf("n%d", i+1) }

// NewCluster creates the nodes' directories; nothing runs yet. Must be called
// inside the bubble.
func NewCluster(h Header, base string, oracles ...Oracle) *Cluster {
	rand.Seed(h.TimerSeed) // election timers draw from the global source (//go:debug randseednop=0 in the test binary)
	c := &Cluster{H: h, Base: base, Nodes: map[string]*Node{}, start: time.Now(), Labels: map[string]int{},
		firstApp: map[uint64]bool{}, lastStatus: map[string]StatusInfo{}, lastConf: map[string]string{}, conf: map[string]bool{}}
	c.rec = NewRecorder(c.start, true, oracles...)
	md := time.Duration(h.MaxDelayUs) * time.Microsecond
	if md < 200*time.Microsecond {
		md = 200 * time.Microsecond
	}
	c.net = newNetwork(c, h.Tape, md)
	return c
}

func (c *Cluster) addNode(id string) *Node {
	n := &Node{ID: id, c: c, dir: filepath.Join(c.Base, id+"-0")}
	c.Nodes[id] = n
	c.Order = append(c.Order, id)
	sort.Strings(c.Order)
	return n
}

// members returns the bootstrap configuration (id -> address; address == id).
func (c *Cluster) InitialMembers() map[string]string {
	m := map[string]string{}
	for i := 0; i < c.H.Voters; i++ {
		m[nodeID(i)] = nodeID(i)
	}
	return m
}

// newInstance builds a raft.Raft over the node's directory with wrapped real
// file storage. Errors are returned (they are verdict-relevant for C13/C14).
func (c *Cluster) newInstance(n *Node) (*Instance, error) {
	n.inc++
	in := &Instance{node: n, inc: n.inc}
	c.mu.Lock()
	c.fsmSeq++
	fid := c.fsmSeq
	c.mu.Unlock()
	d := c.H.Delays
	in.fsm = &LedgerFSM{in: in, id: fid, thresh: c.H.SnapThresh, padding: c.H.Padding,
		delays: FSMDelays{time.Duration(d[0]), time.Duration(d[1]), time.Duration(d[2]), time.Duration(d[3]), time.Duration(d[4])}}
	in.tr = &SimTransport{net: c.net, node: n, inst: in, address: n.ID}
	if err := os.MkdirAll(n.dir, 0o777); err != nil {
		return nil, err
	}
	rl, err := raft.NewLog(n.dir)
	if err != nil {
		return nil, fmt.Errorf("NewLog: %w", err)
	}
	rs, err := raft.NewStateStorage(n.dir)
	if err != nil {
		return nil, fmt.Errorf("NewStateStorage: %w", err)
	}
	rsn, err := raft.NewSnapshotStorage(n.dir)
	if err != nil {
		return nil, fmt.Errorf("NewSnapshotStorage: %w", err)
	}
	r, err := raft.NewRaft(n.ID, n.ID, in.fsm, n.dir,
		raft.WithTransport(in.tr),
		raft.WithLog(&LogWrap{Log: rl, in: in}),
		raft.WithStateStorage(&StateWrap{StateStorage: rs, in: in}),
		raft.WithSnapshotStorage(&SnapWrap{SnapshotStorage: rsn, in: in}),
		raft.WithElectionTimeout(c.ET()), raft.WithHeartbeatInterval(c.HB()), raft.WithLeaseDuration(c.LD()),
		raft.WithLogLevel(logging.Fatal))
	if err != nil {
		return nil, fmt.Errorf("NewRaft: %w", err)
	}
	in.raft = r
	return in, nil
}

// StartNode creates a new incarnation over the node's directory and starts it.
func (c *Cluster) StartNode(id string, bootstrap map[string]string) error {
	n := c.Nodes[id]
	if n == nil {
		n = c.addNode(id)
	}
	if n.cur != nil && !n.Stopped() {
		return nil
	}
	in, err := c.newInstance(n)
	if err != nil {
		c.rec.Add(Event{Kind: "fault", Node: id, Inc: n.inc, Fault: &FaultInfo{What: "start", Err: err.Error(), Image: n.crashInfo != ""}})
		c.StartErrors = append(c.StartErrors, fmt.Sprintf("%s (incarnation %d, after %s): %v", id, n.inc, n.crashInfo, err))
		return err
	}
	if bootstrap != nil {
		if err := in.raft.Bootstrap(bootstrap); err != nil {
			return fmt.Errorf("Bootstrap: %w", err)
		}
	}
	n.cur = in
	n.smu.Lock()
	n.curShared = in
	n.smu.Unlock()
	if err := in.raft.Start(); err != nil {
		c.rec.Add(Event{Kind: "fault", Node: id, Inc: n.inc, Fault: &FaultInfo{What: "start", Err: err.Error(), Image: n.crashInfo != ""}})
		c.StartErrors = append(c.StartErrors, fmt.Sprintf("%s Start: %v", id, err))
		return err
	}
	in.started.Store(true)
	n.everStarted = true
	c.rec.Add(Event{Kind: "fault", Node: id, Inc: in.inc, Fault: &FaultInfo{What: "start", Arg: n.crashInfo, Image: n.crashInfo != ""}})
	n.crashInfo = ""
	return nil
}

// StopNode stops the node gracefully in the background (Stop waits for the
// node's timers, i.e. takes virtual time).
func (c *Cluster) StopNode(id string) {
	n := c.Nodes[id]
	if n == nil || !n.Running() {
		return
	}
	in := n.cur
	in.stopping.Store(true)
	n.downSeq.Store(downCounter.Add(1))
	c.rec.Add(Event{Kind: "fault", Node: id, Inc: in.inc, Fault: &FaultInfo{What: "stop"}})
	c.goTracked(func() {
		in.raft.Stop()
		in.stopped.Store(true)
		c.rec.Add(Event{Kind: "fault", Node: id, Inc: in.inc, Fault: &FaultInfo{What: "stopped"}})
	})
}

// die turns the instance into a zombie: the node's directory as it is at this
// instant becomes the disk the next incarnation starts from.
var downCounter atomic.Int64

func (in *Instance) die(why, op, ctx string, after bool) { in.dieWith(why, op, ctx, after, nil, nil) }

// dieWith: fix is applied to the image before it becomes the node's disk (e.g. to cut the log file inside a
// record); inflight are the entries of the append the process died in (some of them may be in the image).
func (in *Instance) dieWith(why, op, ctx string, after bool, fix func(img string), inflight []EntryInfo) {
	n := in.node
	c := n.c
	n.downSeq.Store(downCounter.Add(1))
	in.opmu.Lock()
	defer in.opmu.Unlock()
	if in.dead.Load() {
		return
	}
	c.mu.Lock()
	c.imgSeq++
	img := filepath.Join(c.Base, fmt.Sprintf("%s-img%d", n.ID, c.imgSeq))
	c.mu.Unlock()
	if err := copyTree(n.dir, img); err != nil {
		c.taint("image copy failed: " + err.Error())
	}
	if fix != nil {
		fix(img)
	}
	in.dead.Store(true)
	n.dir = img
	n.crashInfo = why
	c.rec.Add(Event{Kind: "fault", Node: n.ID, Inc: in.inc, Fault: &FaultInfo{What: "crash", Arg: why, Image: true}, Storage: &StorageInfo{Op: op, Ctx: ctx, Ents: inflight}})
	// the zombie is stopped in the background; its directory is never read again
	c.goTracked(func() {
		in.raft.Stop()
		in.stopped.Store(true)
	})
}

// CrashNode kills the node at this instant (between two events).
func (c *Cluster) CrashNode(id string) {
	n := c.Nodes[id]
	if n == nil || !n.Running() {
		return
	}
	n.cur.die("kill", "", "", false)
}

// ArmCrash arms "crash immediately before/after the k-th storage operation from now".
func (c *Cluster) ArmCrash(id string, k int, before bool) { c.ArmCrashTorn(id, k, before, 0) }

// ArmCrashTorn: like ArmCrash; with torn > 0 a crash that falls on a log append happens inside it.
func (c *Cluster) ArmCrashTorn(id string, k int, before bool, torn int) {
	n := c.Nodes[id]
	if n == nil || !n.Running() {
		return
	}
	in := n.cur
	in.smu.Lock()
	in.crashArmed = true
	in.crashAt = in.opCount + k
	in.crashBefore = before
	in.crashTorn = torn
	in.smu.Unlock()
}

// ---------------------------------------------------------------- observation

func stateName(s raft.State) string {
	switch s {
	case raft.Leader:
		return "leader"
	case raft.Follower:
		return "follower"
	case raft.PreCandidate:
		return "precandidate"
	case raft.Candidate:
		return "candidate"
	case raft.Shutdown:
		return "shutdown"
	}
	return fmt.Sprintf("state(%d)", s)
}

func confInfo(cf *raft.Configuration) *ConfInfo {
	ci := &ConfInfo{Index: cf.Index, Members: map[string]bool{}}
	for id := range cf.Members {
		ci.Members[id] = cf.IsVoter[id]
	}
	return ci
}

func confString(cf *raft.Configuration) string {
	ids := make([]string, 0, len(cf.Members))
	for id := range cf.Members {
		ids = append(ids, id)
	}
	sort.Strings(ids)
	s := fmt.Sprintf("%d:", cf.Index)
	for _, id := range ids {
		if cf.IsVoter[id] {
			s += id + "+"
		} else {
			s += id + "-"
		}
	}
	return s
}

// View is what the generator may look at when choosing the next action.
type View struct {
	Status map[string]StatusInfo
	Conf   map[string]*ConfInfo
}

// Observe samples Status() and Configuration() of every running node at a
// quiescence point and records changes.
func (c *Cluster) Observe() View {
	v := View{Status: map[string]StatusInfo{}, Conf: map[string]*ConfInfo{}}
	for _, id := range c.Order {
		n := c.Nodes[id]
		r := n.Raft()
		if r == nil {
			delete(c.lastStatus, id)
			continue
		}
		st := r.Status()
		si := StatusInfo{Term: st.Term, Commit: st.CommitIndex, Applied: st.LastApplied, State: stateName(st.State)}
		v.Status[id] = si
		if c.lastStatus[id] != si {
			c.lastStatus[id] = si
			s := si
			c.rec.Add(Event{Kind: "status", Node: id, Inc: n.cur.inc, Status: &s})
		}
		cf := r.Configuration()
		ci := confInfo(&cf)
		v.Conf[id] = ci
		cs := confString(&cf)
		if c.lastConf[id] != cs {
			c.lastConf[id] = cs
			c.rec.Add(Event{Kind: "conf", Node: id, Inc: n.cur.inc, Conf: ci})
		}
	}
	return v
}

// Settle waits until every goroutine in the bubble is durably blocked.
func (c *Cluster) Settle() { synctest.Wait() }

// Advance lets d of virtual time pass, observing at sub-intervals.
func (c *Cluster) Advance(d time.Duration) {
	const slice = 25 * time.Millisecond
	for d > 0 {
		s := d
		if s > slice {
			s = slice
		}
		time.Sleep(s)
		d -= s
		synctest.Wait()
		c.Observe()
	}
}

// Leader returns the running node in leader state with the highest term ("" if none).
func (v View) Leader() string {
	best, bt := "", uint64(0)
	ids := make([]string, 0, len(v.Status))
	for id := range v.Status {
		ids = append(ids, id)
	}
	sort.Strings(ids)
	for _, id := range ids {
		s := v.Status[id]
		if s.State == "leader" && (best == "" || s.Term > bt) {
			best, bt = id, s.Term
		}
	}
	return best
}

// ---------------------------------------------------------------- clients

var errNoNode = errors.New("no such running node")

func outcomeOf(err error) string {
	switch {
	case err == nil:
		return "ok"
	case errors.Is(err, raft.ErrNotLeader):
		return "notleader"
	case errors.Is(err, raft.ErrTimeout):
		return "timeout"
	case errors.Is(err, raft.ErrInvalidLease):
		return "invalidlease"
	case errors.Is(err, raft.ErrPendingConfiguration):
		return "pendingconf"
	case errors.Is(err, raft.ErrNoCommitThisTerm):
		return "nocommit"
	}
	return "error:" + err.Error()
}

// Submit issues one client operation against a node in the background and
// records invoke/return. kind: write | linread | leaseread.
func (c *Cluster) Submit(client int, target, kind string, timeout time.Duration) {
	n := c.Nodes[target]
	c.mu.Lock()
	c.opSeq++
	op := c.opSeq
	c.mu.Unlock()
	payload := []byte(fmt.Sprintf("op-%d-c%d", op, client))
	ci := ClientInfo{Client: client, Op: op, Type: kind, H: HashBytes(payload), Target: target, Timeout: timeout.Milliseconds()}
	if n == nil || n.cur == nil || !n.cur.started.Load() || n.cur.dead.Load() {
		return // no process to talk to
	}
	in := n.cur
	r := in.raft
	inv := ci
	seq := c.rec.Add(Event{Kind: "invoke", Node: target, Inc: in.inc, Client: &inv})
	var ot raft.OperationType
	switch kind {
	case "write":
		ot = raft.Replicated
	case "linread":
		ot = raft.LinearizableReadOnly
	default:
		ot = raft.LeaseBasedReadOnly
	}
	c.mu.Lock()
	c.pending++
	c.mu.Unlock()
	c.goTracked(func() {
		defer func() {
			c.mu.Lock()
			c.pending--
			c.mu.Unlock()
		}()
		fut := r.SubmitOperation(payload, ot, timeout)
		res := fut.Await()
		ret := ci
		ret.InvokeSeq = seq
		if in.dead.Load() {
			ret.Outcome = "indeterminate" // the process died; the client never saw an answer
		} else {
			ret.Outcome = outcomeOf(res.Error())
			if res.Error() == nil {
				o := res.Success()
				ret.Index, ret.Term, ret.RH = o.Operation.LogIndex, o.Operation.LogTerm, HashBytes(o.Operation.Bytes)
				switch a := o.ApplicationResponse.(type) {
				case int:
					ret.Result = a
				case ReadResult:
					ret.Result, ret.Last = a.Len, a.Last
				}
				if kind == "write" && c.H.DiskCheck {
					c.diskCheck(ret.Index, ret.Term, ret.RH, "ack")
				}
			}
		}
		c.rec.Add(Event{Kind: "return", Node: target, Inc: in.inc, Client: &ret})
	})
}

// Member issues AddServer / RemoveServer in the background.
func (c *Cluster) Member(client int, target, kind, arg string, voter bool, timeout time.Duration) {
	n := c.Nodes[target]
	if n == nil || n.cur == nil || !n.cur.started.Load() || n.cur.dead.Load() {
		return
	}
	c.mu.Lock()
	c.opSeq++
	op := c.opSeq
	c.mu.Unlock()
	in := n.cur
	r := in.raft
	ci := ClientInfo{Client: client, Op: op, Type: kind, Target: target, Arg: arg, Voter: voter, Timeout: timeout.Milliseconds()}
	inv := ci
	seq := c.rec.Add(Event{Kind: "invoke", Node: target, Inc: in.inc, Client: &inv})
	c.goTracked(func() {
		var fut raft.Future[raft.Configuration]
		if kind == "add" {
			fut = r.AddServer(arg, arg, voter, timeout)
		} else {
			fut = r.RemoveServer(arg, timeout)
		}
		res := fut.Await()
		ret := ci
		ret.InvokeSeq = seq
		if in.dead.Load() {
			ret.Outcome = "indeterminate"
		} else {
			ret.Outcome = outcomeOf(res.Error())
			if res.Error() == nil {
				cf := res.Success()
				ret.Conf = confInfo(&cf)
			}
		}
		c.rec.Add(Event{Kind: "return", Node: target, Inc: in.inc, Client: &ret})
	})
}

// onApply is called inside the state machine at every live application.
func (c *Cluster) onApply(in *Instance, index, term, h uint64) {
	if !c.H.DiskCheck {
		return
	}
	c.mu.Lock()
	first := !c.firstApp[index]
	c.firstApp[index] = true
	c.mu.Unlock()
	if first {
		c.diskCheck(index, term, h, "apply")
	}
}

// ---------------------------------------------------------------- end of case

// Shutdown stops everything so that the bubble can end: parked messages are
// lost, nodes stopped, background goroutines awaited.
func (c *Cluster) Shutdown() {
	if c.shutdownDone {
		return
	}
	c.shutdownDone = true
	for _, id := range c.Order {
		c.net.SetLinkAllFrom(id, Drop, c.Order)
	}
	c.net.ReleaseAll(false, nil)
	type stopping struct {
		id string
		in *Instance
	}
	var stops []stopping
	for _, id := range c.Order {
		n := c.Nodes[id]
		if n.cur != nil && n.cur.started.Load() && !n.cur.dead.Load() {
			in := n.cur
			stops = append(stops, stopping{id, in})
			if !in.stopping.Load() {
				in.stopping.Store(true)
				c.goTracked(func() { in.raft.Stop(); in.stopped.Store(true) })
			}
		}
	}
	// messages parked after the first sweep (senders that were mid-flight)
	done := make(chan struct{})
	go func() { c.wg.Wait(); close(done) }()
	poll := 50 * time.Millisecond
	if c.ET()/4 > poll {
		poll = c.ET() / 4
	}
	// Stop() waits for the node's timers (at most two election timeouts) and client futures time
	// out after at most a few seconds of virtual time; far beyond that, something is stuck.
	deadline := time.Now().Add(100*c.ET() + time.Minute)
	for {
		select {
		case <-done:
			// RPC goroutines of the library are not awaited by Stop: let the ones still
			// travelling finish (time stops when the bubble's root goroutine exits)
			for c.net.inflight.Load() > 0 {
				c.net.ReleaseAll(false, nil)
				time.Sleep(time.Millisecond)
			}
			return
		case <-time.After(poll):
			c.net.ReleaseAll(false, nil)
			if time.Now().After(deadline) {
				var stuck []string
				for _, st := range stops {
					if !st.in.stopped.Load() {
						stuck = append(stuck, fmt.Sprintf("%s (Status %s)", st.id, stateName(st.in.raft.Status().State)))
					}
				}
				c.Hang = fmt.Sprintf("Stop() did not return within %v of virtual time on %v", 100*c.ET()+time.Minute, stuck)
				if len(stuck) == 0 {
					c.Hang = "background work (client futures / message handlers) did not finish after all nodes were stopped"
				}
				return
			}
		}
	}
}

func (n *Network) SetLinkAllFrom(a string, m LinkMode, all []string) {
	for _, b := range all {
		if a != b {
			n.SetLink(a, b, m)
		}
	}
}
