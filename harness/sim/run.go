package sim

import (
	"encoding/json"
	"fmt"
	"os"
	"runtime/debug"
	"sort"
	"strings"
	"testing"
	"testing/synctest"
	"time"

	"pgregory.net/rapid"
)

// CaseScript is the replayable description of one case.
type CaseScript struct {
	Profile string   `json:"profile"`
	Header  Header   `json:"header"`
	Actions []Action `json:"actions"`
}

// Result is what one executed case reports to the property test.
type Result struct {
	Script     CaseScript
	Violations []Violation
	History    []Event
	Labels     map[string]int
	Tainted    string
	Events     int
	Skipped    int // replay: actions that were not applicable
	StartErrs  []string
	Final      View
	Cluster    *Cluster // only valid inside hooks
}

// Hooks lets a property add its own prologue/epilogue and oracles.
type Hooks struct {
	Oracles  func() []Oracle
	Epilogue func(c *Cluster, g *Gen) // extra end-of-case behaviour (inside the bubble)
	Setup    func(c *Cluster)
	// StopOn says which violations end the case at once (nil: every violation does). A check
	// stops on violations of the properties it owns and on known findings (everything after a
	// known root cause is its consequence); violations of other properties are recorded but the
	// schedule goes on, so that a defect whose first symptom belongs to another property can
	// still run into this one.
	StopOn func(v Violation) bool
}

var hangSeen bool

var journalFile *os.File

func journal(v any) {
	if journalFile == nil {
		p := os.Getenv("VERIF_JOURNAL")
		if p == "" {
			return
		}
		f, err := os.OpenFile(p, os.O_CREATE|os.O_WRONLY|os.O_TRUNC, 0o644)
		if err != nil {
			return
		}
		journalFile = f
	}
	b, _ := json.Marshal(v)
	journalFile.Write(append(b, '\n'))
}

func journalReset() {
	if journalFile != nil {
		journalFile.Truncate(0)
		journalFile.Seek(0, 0)
	}
}

// bubble runs f inside a synctest bubble and carries any panic (rapid uses
// panics for failures and for its own control flow) out of it.
func bubble(t *testing.T, f func()) {
	var pv any
	defer func() {
		// a case that could not be shut down leaves goroutines behind; synctest reports that as a
		// deadlock panic when the root goroutine exits. The hang itself is reported as a violation.
		if r := recover(); r != nil {
			if s := fmt.Sprint(r); hangSeen && strings.Contains(s, "blocked goroutines remain") {
				hangSeen = false
				return
			}
			panic(r)
		}
	}()
	synctest.Test(t, func(*testing.T) {
		defer func() { // must be the outermost deferred call
			pv = recover()
			if pv != nil {
				if tn := fmt.Sprintf("%T", pv); !strings.HasPrefix(tn, "rapid.") && !strings.HasPrefix(tn, "*rapid.") {
					pv = fmt.Sprintf("harness panic: %v\n%s", pv, debug.Stack())
				}
			}
		}()
		f()
	})
	if pv != nil {
		panic(pv)
	}
}

// setup starts the initial cluster.
func (c *Cluster) bootstrapAll() error {
	members := c.InitialMembers()
	for i := 0; i < c.H.Voters; i++ {
		c.conf[nodeID(i)] = true
	}
	for i := 0; i < c.H.Voters; i++ {
		if err := c.StartNode(nodeID(i), members); err != nil {
			return err
		}
	}
	return nil
}

// waitLeader advances until some node reports leader state (bounded).
func (c *Cluster) waitLeader(max time.Duration) string {
	deadline := c.Now() + max
	for c.Now() < deadline {
		c.Advance(c.HB())
		if l := c.Observe().Leader(); l != "" {
			return l
		}
	}
	return ""
}

// prologue: first leader, then the non-voters are added through the public API.
func (c *Cluster) prologue(p Profile) {
	if !p.Prologue && c.H.NonVoters == 0 {
		return
	}
	l := c.waitLeader(20 * c.ET())
	for k := 0; k < c.H.NonVoters && l != ""; k++ {
		id := nodeID(c.H.Voters + k)
		a := Action{Op: "startempty", Node: id, Pat: "prologue"}
		c.Script = append(c.Script, a)
		c.Exec(a)
		for try := 0; try < 20; try++ {
			l = c.waitLeader(10 * c.ET())
			if l == "" {
				break
			}
			a := Action{Op: "add", Node: l, Node2: id, Voter: false, Client: 8, Timeout: 100, Pat: "prologue"}
			c.Script = append(c.Script, a)
			c.Exec(a)
			c.Advance(2 * c.HB())
			ok := false
			for _, o := range c.Order {
				if r := c.Nodes[o].Raft(); r != nil {
					cf := r.Configuration()
					if _, in := cf.Members[id]; in && o == l {
						ok = true
					}
				}
			}
			if ok {
				break
			}
		}
		c.Advance(4 * c.HB())
	}
}

func (c *Cluster) step(a Action) {
	c.Script = append(c.Script, a)
	journal(a)
	c.Exec(a)
	time.Sleep(2 * time.Microsecond)
	synctest.Wait()
	c.Observe()
}

// epilogue: heal, bring every node back, run fault-free.
func (c *Cluster) epilogue(p Profile) {
	// no further faults: pending "crash at the k-th storage operation" arms are cancelled
	for _, id := range c.Order {
		if n := c.Nodes[id]; n.cur != nil {
			n.cur.smu.Lock()
			n.cur.crashArmed = false
			n.cur.smu.Unlock()
		}
	}
	c.step(Action{Op: "heal", Mode: "deliver", Pat: "epilogue"})
	for _, id := range c.Order {
		n := c.Nodes[id]
		if n.cur != nil && n.cur.stopping.Load() && !n.cur.stopped.Load() {
			// a graceful stop still in progress: give it time to finish
			c.Advance(2*c.ET() + c.HB())
		}
	}
	// some of the most recently stopped nodes may stay down (C15 only assumes a running majority): everybody else
	// is restarted first, because what the restarted nodes have on disk decides which configurations are in use
	cand := c.keepDownCandidates()
	for _, id := range c.Order {
		n := c.Nodes[id]
		if n.Stopped() && n.everStarted && !cand[id] {
			c.step(Action{Op: "restart", Node: id, Pat: "epilogue"})
		}
	}
	for _, id := range c.keepDownOrder(cand) {
		if !c.majorityRunsWithout(cand) {
			delete(cand, id)
			c.step(Action{Op: "restart", Node: id, Pat: "epilogue"})
		}
	}
	// every member named by a running node's configuration runs from now on
	for _, id := range append([]string(nil), c.Order...) {
		if r := c.Nodes[id].Raft(); r != nil {
			cf := r.Configuration()
			for m := range cf.Members {
				if mn := c.Nodes[m]; mn == nil || (mn.Stopped() && !mn.everStarted) {
					c.step(Action{Op: "startempty", Node: m, Pat: "epilogue"})
				}
			}
		}
	}
	n := p.EpilogueET
	if n == 0 {
		n = 8
	}
	c.Advance(time.Duration(n/2) * c.ET())
	if p.Writes {
		if l := c.Observe().Leader(); l != "" {
			c.step(Action{Op: "submit", Node: l, Kind: "write", Client: 7, Timeout: 1000, Pat: "epilogue"})
		}
	}
	c.Advance(time.Duration(n-n/2) * c.ET())
}

// keepDownCandidates: at most Header.KeepDown of the stopped nodes, the most recently stopped first.
func (c *Cluster) keepDownCandidates() map[string]bool {
	keep := map[string]bool{}
	if c.H.KeepDown <= 0 {
		return keep
	}
	var down []*Node
	for _, id := range c.Order {
		if n := c.Nodes[id]; n.Stopped() && n.everStarted {
			down = append(down, n)
		}
	}
	sort.Slice(down, func(i, j int) bool { return down[i].downSeq.Load() > down[j].downSeq.Load() })
	for _, n := range down {
		if len(keep) >= c.H.KeepDown {
			break
		}
		keep[n.ID] = true
	}
	return keep
}

// keepDownOrder: the candidates, the one that stopped first comes back first if somebody has to.
func (c *Cluster) keepDownOrder(cand map[string]bool) []string {
	var ids []string
	for id := range cand {
		ids = append(ids, id)
	}
	sort.Slice(ids, func(i, j int) bool { return c.Nodes[ids[i]].downSeq.Load() < c.Nodes[ids[j]].downSeq.Load() })
	return ids
}

// majorityRunsWithout: does every configuration reported by a running node keep a running majority of its voters
// if the nodes in down stay down? A voter that was never started does not count as running.
func (c *Cluster) majorityRunsWithout(down map[string]bool) bool {
	any := false
	for _, id := range c.Order {
		n := c.Nodes[id]
		r := n.Raft()
		if r == nil || !n.Running() {
			continue
		}
		cf := r.Configuration()
		voters, up := 0, 0
		for m, v := range cf.IsVoter {
			if !v {
				continue
			}
			voters++
			if mn := c.Nodes[m]; mn != nil && mn.Running() && !down[m] {
				up++
			}
		}
		if voters > 0 {
			any = true // (a node that was started empty and knows no configuration says nothing about who is needed)
			if up < voters/2+1 {
				return false
			}
		}
	}
	return any
}

// runInBubble executes one case. next yields the actions (generator or script).
func runInBubble(base string, p Profile, h Header, hooks Hooks, mk func(c *Cluster) func(v View) (Action, bool)) *Result {
	var oracles []Oracle
	if hooks.Oracles != nil {
		oracles = hooks.Oracles()
	}
	c := NewCluster(h, base, oracles...)
	res := &Result{Cluster: c}
	defer func() {
		c.Shutdown()
		res.Cluster = nil
	}()
	journalReset()
	journal(map[string]any{"profile": p.Name, "header": h})
	hb, _ := json.Marshal(h)
	c.rec.Add(Event{Kind: "header", Note: string(hb)})
	if err := c.bootstrapAll(); err != nil {
		panic(fmt.Sprintf("sim: bootstrap failed: %v", err))
	}
	if hooks.Setup != nil {
		hooks.Setup(c)
	}
	c.prologue(p)
	next := mk(c)
	v := c.Observe()
	bad := func() bool {
		if c.Tainted() != "" {
			return true
		}
		for _, v := range c.rec.Violations() {
			if hooks.StopOn == nil || hooks.StopOn(v) {
				return true
			}
		}
		return false
	}
	journaled := 0
	for !bad() {
		a, ok := next(v)
		if !ok {
			break
		}
		c.step(a)
		v = c.Observe()
		// violations go to the journal as they are found: if the process dies later in the case
		// (a panic in a library goroutine), the driver's death report still shows what the oracle had seen
		if vs := c.rec.Violations(); len(vs) > journaled {
			for _, x := range vs[journaled:] {
				journal(map[string]any{"violation_seen": x.Signature, "property": x.Property, "msg": x.Msg})
			}
			journaled = len(vs)
		}
	}
	if !bad() {
		c.epilogue(p)
	}
	if !bad() && hooks.Epilogue != nil {
		hooks.Epilogue(c, nil)
	}
	res.Final = c.Observe()
	c.Shutdown()
	res.Violations = c.rec.Finish()
	res.Violations = append(res.Violations, c.Extra...)
	if c.Hang != "" {
		hangSeen = true
		res.Violations = append(res.Violations, Violation{Property: "C18", Signature: "C18/stop-hangs", Msg: c.Hang})
	}
	res.History = c.rec.History()
	res.Events = len(res.History)
	res.Labels = c.Labels
	res.Tainted = c.Tainted()
	res.StartErrs = c.StartErrors
	res.Script = CaseScript{Profile: p.Name, Header: h, Actions: c.Script}
	return res
}

// RunGenerated draws and executes one case inside a bubble.
func RunGenerated(t *testing.T, rt *rapid.T, base string, p Profile, hooks Hooks) *Result {
	var res *Result
	bubble(t, func() {
		h := DrawHeader(rt, p)
		res = runInBubble(base, p, h, hooks, func(c *Cluster) func(v View) (Action, bool) {
			g := NewGen(rt, p, c)
			return g.Next
		})
	})
	return res
}

// RunScript re-executes a saved script, bypassing rapid (replay tier).
func RunScript(t *testing.T, base string, p Profile, s CaseScript, hooks Hooks) *Result {
	var res *Result
	bubble(t, func() {
		res = runInBubble(base, p, s.Header, hooks, func(c *Cluster) func(v View) (Action, bool) {
			// prologue / epilogue actions are re-generated by the runner itself
			var acts []Action
			for _, a := range s.Actions {
				if a.Pat != "prologue" && a.Pat != "epilogue" {
					acts = append(acts, a)
				}
			}
			i := 0
			return func(v View) (Action, bool) {
				if i >= len(acts) {
					return Action{}, false
				}
				a := acts[i]
				i++
				return a, true
			}
		})
	})
	return res
}
