package sim

import (
	"fmt"
	"sort"
	"time"
)

// Action is one literal schedule step (DESIGN.md appendix D). Scripts are
// lists of Actions; every field is drawn by rapid or read from a replay file.
type Action struct {
	Op      string   `json:"op"`
	Node    string   `json:"node,omitempty"`
	Node2   string   `json:"node2,omitempty"`
	Set     []string `json:"set,omitempty"`
	DurUs   int64    `json:"dur_us,omitempty"`
	Mode    string   `json:"mode,omitempty"`
	Dir     string   `json:"dir,omitempty"`
	Sel     int      `json:"sel,omitempty"`
	Desc    string   `json:"desc,omitempty"` // canonical descriptor of the selected message (informational)
	Kind    string   `json:"kind,omitempty"`
	Client  int      `json:"client,omitempty"`
	Timeout int      `json:"timeout_ms,omitempty"`
	K       int      `json:"k,omitempty"`
	Before  bool     `json:"before,omitempty"`
	Voter   bool     `json:"voter,omitempty"`
	Pat     string   `json:"pat,omitempty"` // pattern that produced this action (label only)
}

func (a Action) String() string {
	s := a.Op
	if a.Node != "" {
		s += " " + a.Node
	}
	if a.Node2 != "" {
		s += "," + a.Node2
	}
	if len(a.Set) > 0 {
		s += fmt.Sprintf(" %v", a.Set)
	}
	if a.DurUs != 0 {
		s += fmt.Sprintf(" %v", time.Duration(a.DurUs)*time.Microsecond)
	}
	if a.Mode != "" {
		s += " " + a.Mode
	}
	if a.Dir != "" {
		s += " " + a.Dir
	}
	if a.Kind != "" {
		s += " " + a.Kind
	}
	if a.Op == "release" {
		s += fmt.Sprintf(" #%d{%s}", a.Sel, a.Desc)
	}
	if a.Op == "armcrash" {
		s += fmt.Sprintf(" k=%d before=%v", a.K, a.Before)
	}
	if a.Timeout != 0 {
		s += fmt.Sprintf(" to=%dms", a.Timeout)
	}
	if a.Pat != "" {
		s += " [" + a.Pat + "]"
	}
	return s
}

func (c *Cluster) others(id string) []string {
	var out []string
	for _, o := range c.Order {
		if o != id {
			out = append(out, o)
		}
	}
	return out
}

// Exec performs one action. It never blocks on virtual time except for
// "advance". Returns false if the action was not applicable in this state
// (replay divergence); inapplicable actions are no-ops.
func (c *Cluster) Exec(a Action) bool {
	c.rec.Add(Event{Kind: "action", Action: &a})
	c.mu.Lock()
	c.Labels["act:"+a.Op]++
	if a.Pat != "" {
		c.Labels["pat:"+a.Pat]++
	}
	c.mu.Unlock()
	switch a.Op {
	case "advance":
		c.Advance(time.Duration(a.DurUs) * time.Microsecond)
	case "link":
		c.net.SetLink(a.Node, a.Node2, ParseLinkMode(a.Mode))
	case "isolate":
		m := ParseLinkMode(a.Mode)
		for _, o := range c.others(a.Node) {
			if a.Dir == "" || a.Dir == "both" || a.Dir == "out" {
				c.net.SetLink(a.Node, o, m)
			}
			if a.Dir == "" || a.Dir == "both" || a.Dir == "in" {
				c.net.SetLink(o, a.Node, m)
			}
		}
	case "partition":
		m := ParseLinkMode(a.Mode)
		in := map[string]bool{}
		for _, s := range a.Set {
			in[s] = true
		}
		for _, x := range c.Order {
			for _, y := range c.Order {
				if x != y && in[x] != in[y] {
					if a.Dir == "" || a.Dir == "both" || (a.Dir == "out" && in[x]) || (a.Dir == "in" && in[y]) {
						c.net.SetLink(x, y, m)
					}
				}
			}
		}
	case "heal":
		for _, x := range c.Order {
			for _, y := range c.Order {
				if x != y {
					c.net.SetLink(x, y, Prompt)
				}
			}
		}
		// parked messages continue (very late deliveries) or are lost
		c.net.ReleaseAll(a.Mode != "drop", nil)
	case "reconnect":
		for _, o := range c.others(a.Node) {
			c.net.SetLink(a.Node, o, Prompt)
			c.net.SetLink(o, a.Node, Prompt)
		}
		c.net.ReleaseAll(a.Mode != "drop", func(m *Msg) bool { return m.from() == a.Node || m.to() == a.Node })
	case "release":
		held := c.net.Held()
		if len(held) == 0 {
			return false
		}
		m := held[a.Sel%len(held)]
		switch a.Mode {
		case "drop":
			c.net.Release(m, false)
		case "dup":
			c.net.Duplicate(m)
		default:
			c.net.Release(m, true)
		}
	case "releaseto":
		// all parked replies travelling to Node, oldest first
		var ms []*Msg
		for _, m := range c.net.Held() {
			if m.Phase == 1 && m.to() == a.Node {
				ms = append(ms, m)
			}
		}
		sort.SliceStable(ms, func(i, j int) bool { return ms[i].arr < ms[j].arr })
		if a.K > 0 && len(ms) > a.K {
			ms = ms[:a.K]
		}
		for _, m := range ms {
			c.net.Release(m, a.Mode != "drop")
		}
		return len(ms) > 0
	case "releaselink":
		// Kind (optional) restricts the release to one kind of message, e.g. "RV": vote traffic passes, the rest stays parked
		n := c.net.ReleaseAll(a.Mode != "drop", func(m *Msg) bool {
			if a.Kind == "RVpre" || a.Kind == "RVreal" { // only prevotes / only real vote requests (and their replies)
				return m.from() == a.Node && m.to() == a.Node2 && m.Info.Kind == "RV" && m.Info.Prevote == (a.Kind == "RVpre")
			}
			return m.from() == a.Node && m.to() == a.Node2 && (a.Kind == "" || m.Info.Kind == a.Kind)
		})
		return n > 0
	case "submit":
		c.Submit(a.Client, a.Node, a.Kind, time.Duration(a.Timeout)*time.Millisecond)
	case "add":
		c.Member(a.Client, a.Node, "add", a.Node2, a.Voter, time.Duration(a.Timeout)*time.Millisecond)
	case "remove":
		c.Member(a.Client, a.Node, "remove", a.Node2, false, time.Duration(a.Timeout)*time.Millisecond)
	case "startempty":
		if n := c.Nodes[a.Node]; n != nil && !n.Stopped() {
			return false
		}
		return c.StartNode(a.Node, nil) == nil
	case "stop":
		if n := c.Nodes[a.Node]; n == nil || !n.Running() {
			return false
		}
		c.StopNode(a.Node)
	case "crash":
		if n := c.Nodes[a.Node]; n == nil || !n.Running() {
			return false
		}
		c.CrashNode(a.Node)
	case "armcrash":
		if n := c.Nodes[a.Node]; n == nil || !n.Running() {
			return false
		}
		c.ArmCrashTorn(a.Node, a.K, a.Before, a.Sel) // Sel > 0: a crash that falls on a log append happens inside it (torn tail)
	case "restart":
		n := c.Nodes[a.Node]
		if n == nil || !n.Stopped() || !n.everStarted {
			return false
		}
		return c.StartNode(a.Node, nil) == nil
	case "api":
		return c.API(a)
	case "stress":
		c.Stress(a)
	case "mark":
		// T0 of C16: nothing happens; the action event itself carries leader and majority
	case "armsnap":
		n := c.Nodes[a.Node]
		if n == nil || !n.Running() {
			return false
		}
		n.cur.fsm.Arm()
	default:
		panic("sim: unknown action " + a.Op)
	}
	return true
}
