package sim

import (
	"bytes"
	"fmt"
	"io"
	"os"
	"path/filepath"
	"runtime"
	"strings"
	"time"

	"github.com/jmsadair/raft"
)

// callerCtx names the library function on whose behalf a storage call is made
// (used only for labels and for the non-triviality rule of C14).
func callerCtx() string {
	var pcs [24]uintptr
	n := runtime.Callers(3, pcs[:])
	frames := runtime.CallersFrames(pcs[:n])
	for {
		f, more := frames.Next()
		if i := strings.Index(f.Function, "jmsadair/raft.(*Raft)."); i >= 0 {
			name := f.Function[i+len("jmsadair/raft.(*Raft)."):]
			switch name {
			case "persistTermAndVote", "appendConfiguration", "resetSnapshotFiles", "nextConfiguration", "applyConfiguration", "sendInstallSnapshot":
				// helpers: keep looking for the caller
			default:
				return name
			}
		}
		if !more {
			break
		}
	}
	return ""
}

// calledFrom reports whether a function whose name contains fn is on the caller's stack.
func calledFrom(fn string) bool {
	var pcs [32]uintptr
	n := runtime.Callers(2, pcs[:])
	frames := runtime.CallersFrames(pcs[:n])
	for {
		f, more := frames.Next()
		if strings.Contains(f.Function, fn) {
			return true
		}
		if !more {
			return false
		}
	}
}

// storageOp wraps one mutating storage call of a live instance: it numbers the
// call, records it, and implements "crash immediately before/after the k-th
// storage operation" by capturing the directory as the disk at that instant.
func (in *Instance) storageOp(info StorageInfo, do func() error) error {
	in.smu.Lock()
	if in.dead.Load() {
		in.smu.Unlock()
		return do() // a zombie keeps running on its abandoned directory; nothing it does is observed
	}
	in.opCount++
	ord := in.opCount
	armed := in.crashArmed && in.crashAt == ord
	before := in.crashBefore
	torn := in.crashTorn
	if armed {
		in.crashArmed = false
	}
	in.smu.Unlock()
	ctx := callerCtx()
	if armed && torn > 0 && info.Op == "log.append" {
		// the process dies inside the append: the call runs on the live directory (the instance is a zombie
		// from now on and the history never learns of the call), the image keeps only a part of the bytes it wrote
		lf := filepath.Join(in.node.dir, "log", "log.bin")
		var sizeBefore int64
		if st, err := os.Stat(lf); err == nil {
			sizeBefore = st.Size()
		}
		in.opmu.Lock()
		if in.dead.Load() {
			in.opmu.Unlock()
			return do()
		}
		err := do()
		in.opmu.Unlock()
		in.dieWith(fmt.Sprintf("inside storage op %d (%s in %s), torn tail", ord, info.Op, ctx), info.Op, ctx, false, func(img string) {
			f := filepath.Join(img, "log", "log.bin")
			if st, e := os.Stat(f); e == nil && st.Size() > sizeBefore+1 {
				span := st.Size() - sizeBefore - 1
				cut := sizeBefore + 1 + int64(torn)%span
				_ = os.Truncate(f, cut)
			}
		}, info.Ents)
		return err
	}
	if armed && before {
		in.die(fmt.Sprintf("before storage op %d (%s in %s)", ord, info.Op, ctx), info.Op, ctx, false)
		return do()
	}
	// opmu makes "operation done on disk" and "operation recorded" one step with respect to
	// die(), so that a crash image never contains an operation the history does not know.
	in.opmu.Lock()
	if in.dead.Load() {
		in.opmu.Unlock()
		return do()
	}
	err := do()
	info.Ord = ord
	info.Ctx = ctx
	if err != nil {
		info.Err = err.Error()
	}
	in.node.c.rec.Add(Event{Kind: "storage", Node: in.node.ID, Inc: in.inc, Storage: &info})
	in.opmu.Unlock()
	if armed && !before {
		in.die(fmt.Sprintf("after storage op %d (%s in %s)", ord, info.Op, ctx), info.Op, ctx, true)
	}
	return err
}

// ---------------------------------------------------------------- log

type LogWrap struct {
	raft.Log
	in *Instance
}

func entryInfos(es []*raft.LogEntry) []EntryInfo {
	out := make([]EntryInfo, len(es))
	for i, e := range es {
		out[i] = EntryInfo{I: e.Index, T: e.Term, Y: uint32(e.EntryType), H: entryHash(e.EntryType, e.Data)}
	}
	return out
}

func (l *LogWrap) AppendEntry(e *raft.LogEntry) error {
	return l.in.storageOp(StorageInfo{Op: "log.append", Ents: entryInfos([]*raft.LogEntry{e})}, func() error { return l.Log.AppendEntry(e) })
}

func (l *LogWrap) AppendEntries(es []*raft.LogEntry) error {
	if len(es) == 0 {
		return l.Log.AppendEntries(es)
	}
	return l.in.storageOp(StorageInfo{Op: "log.append", Ents: entryInfos(es)}, func() error { return l.Log.AppendEntries(es) })
}

func (l *LogWrap) Truncate(index uint64) error {
	return l.in.storageOp(StorageInfo{Op: "log.truncate", Index: index}, func() error { return l.Log.Truncate(index) })
}

func (l *LogWrap) Compact(index uint64) error {
	return l.in.storageOp(StorageInfo{Op: "log.compact", Index: index}, func() error { return l.Log.Compact(index) })
}

func (l *LogWrap) DiscardEntries(index, term uint64) error {
	return l.in.storageOp(StorageInfo{Op: "log.discard", Index: index, Term: term}, func() error { return l.Log.DiscardEntries(index, term) })
}

// Replay records what the node recovered from disk ("log.state").
func (l *LogWrap) Replay() error {
	err := l.Log.Replay()
	if l.in.dead.Load() {
		return err
	}
	info := StorageInfo{Op: "log.state"}
	if err != nil {
		info.Err = err.Error()
	} else {
		last := l.Log.LastIndex()
		first := last - uint64(l.Log.Size())
		info.Index = first
		for i := first + 1; i <= last; i++ {
			e, gerr := l.Log.GetEntry(i)
			if gerr != nil {
				info.Err = gerr.Error()
				break
			}
			info.Ents = append(info.Ents, EntryInfo{I: e.Index, T: e.Term, Y: uint32(e.EntryType), H: entryHash(e.EntryType, e.Data)})
		}
	}
	l.in.node.c.rec.Add(Event{Kind: "storage", Node: l.in.node.ID, Inc: l.in.inc, Storage: &info})
	return err
}

// ---------------------------------------------------------------- term / vote

type StateWrap struct {
	raft.StateStorage
	in *Instance
}

func (s *StateWrap) SetState(term uint64, vote string) error {
	return s.in.storageOp(StorageInfo{Op: "state.set", Term: term, Vote: vote}, func() error { return s.StateStorage.SetState(term, vote) })
}

func (s *StateWrap) State() (uint64, string, error) {
	t, v, err := s.StateStorage.State()
	if !s.in.dead.Load() && !s.in.stateRead {
		s.in.stateRead = true
		info := StorageInfo{Op: "state.get", Term: t, Vote: v}
		if err != nil {
			info.Err = err.Error()
		}
		s.in.node.c.rec.Add(Event{Kind: "storage", Node: s.in.node.ID, Inc: s.in.inc, Storage: &info})
	}
	return t, v, err
}

// ---------------------------------------------------------------- snapshots

type SnapWrap struct {
	raft.SnapshotStorage
	in *Instance
}

type snapFileWrap struct {
	raft.SnapshotFile
	in      *Instance
	id      int
	writing bool
	origin  string
	tee     bytes.Buffer
	done    bool
	collide bool // its directory name equals another snapshot's (harness artefact): never renamed into place
}

func (s *SnapWrap) NewSnapshotFile(index, term uint64, conf []byte) (raft.SnapshotFile, error) {
	in := s.in
	c := in.node.c
	now := time.Now().UnixNano()
	in.node.smu.Lock()
	collide := false
	if in.node.lastSnapNano == now {
		// two snapshot directories of one node would get the same time-derived name, which
		// cannot happen with a real clock: harness artefact, the case is discarded.
		if !in.dead.Load() {
			c.taint("snapshot-name-collision")
		}
		collide = true
	}
	in.node.lastSnapNano = now
	in.node.smu.Unlock()
	c.mu.Lock()
	c.fileSeq++
	id := c.fileSeq
	c.mu.Unlock()
	ctx := callerCtx()
	origin := "local"
	if ctx == "InstallSnapshot" {
		origin = "received"
	}
	var f raft.SnapshotFile
	err := in.storageOp(StorageInfo{Op: "snap.new", Index: index, Term: term, File: id, Len: len(conf)}, func() error {
		var e error
		f, e = s.SnapshotStorage.NewSnapshotFile(index, term, conf)
		return e
	})
	if err != nil {
		return nil, err
	}
	return &snapFileWrap{SnapshotFile: f, in: in, id: id, writing: true, origin: origin, collide: collide}, nil
}

func (s *SnapWrap) SnapshotFile() (raft.SnapshotFile, error) {
	f, err := s.SnapshotStorage.SnapshotFile()
	if err != nil || f == nil {
		return f, err
	}
	return &snapFileWrap{SnapshotFile: f, in: s.in}, nil
}

func (f *snapFileWrap) Write(p []byte) (int, error) {
	if !f.writing {
		return f.SnapshotFile.Write(p)
	}
	var n int
	err := f.in.storageOp(StorageInfo{Op: "snap.write", File: f.id, Len: len(p)}, func() error {
		var e error
		n, e = f.SnapshotFile.Write(p)
		return e
	})
	f.tee.Write(p[:n])
	return n, err
}

// ReadFrom is deliberately not implemented so that io.Copy goes through Write.

func (f *snapFileWrap) Close() error {
	if !f.writing || f.done {
		return f.SnapshotFile.Close()
	}
	f.done = true
	if f.collide {
		return f.SnapshotFile.Discard() // the case is already discarded; do not let the library abort the process
	}
	return f.in.storageOp(StorageInfo{Op: "snap.close", File: f.id}, func() error {
		err := f.SnapshotFile.Close()
		// the snapshot is visible from here on: record it as part of the operation itself, so that a
		// crash "immediately after" this operation (whose image contains the snapshot) knows about it
		if err == nil && !f.in.dead.Load() {
			f.recordSnapFile()
		}
		return err
	})
}

func (f *snapFileWrap) recordSnapFile() {
	md := f.SnapshotFile.Metadata()
	info := SnapInfo{File: f.id, Index: md.LastIncludedIndex, Term: md.LastIncludedTerm, ConfH: HashBytes(md.Configuration),
		Len: f.tee.Len(), H: HashBytes(f.tee.Bytes()), Origin: f.origin}
	if conf, derr := f.in.node.c.net.codec.DecodeConfiguration(md.Configuration); derr == nil {
		info.Conf = confString(&conf)
	}
	items, derr := DecodeLedger(f.tee.Bytes())
	if derr != nil {
		info.DecodeErr = derr.Error()
	} else {
		info.LedgerLen = len(items)
		info.LedgerH = ledgerHash(items)
		for _, it := range items {
			info.Ledger = append(info.Ledger, it.Index)
		}
		if len(items) > 0 {
			info.LedgerLast = items[len(items)-1].Index
		}
	}
	f.in.node.c.rec.Add(Event{Kind: "snapfile", Node: f.in.node.ID, Inc: f.in.inc, Snap: &info})
}

func (f *snapFileWrap) Discard() error {
	if !f.writing || f.done {
		return f.SnapshotFile.Discard()
	}
	f.done = true
	return f.in.storageOp(StorageInfo{Op: "snap.discard", File: f.id}, func() error { return f.SnapshotFile.Discard() })
}

var _ io.Writer = (*snapFileWrap)(nil)

// ---------------------------------------------------------------- directory images

// copyTree copies a directory tree in-process (the disk at a crash instant).
func copyTree(src, dst string) error {
	return filepath.Walk(src, func(path string, info os.FileInfo, err error) error {
		if err != nil {
			if os.IsNotExist(err) {
				return nil // a concurrent rename/remove by the node itself
			}
			return err
		}
		rel, _ := filepath.Rel(src, path)
		target := filepath.Join(dst, rel)
		if info.IsDir() {
			return os.MkdirAll(target, 0o777)
		}
		b, err := os.ReadFile(path)
		if err != nil {
			if os.IsNotExist(err) {
				return nil
			}
			return err
		}
		return os.WriteFile(target, b, 0o666)
	})
}
