package sim

import (
	"fmt"
	"time"

	"github.com/jmsadair/raft"
)

// Stress starts a.K goroutines that each make a.Sel public-API calls on nodes chosen by a
// generator seeded with the drawn a.Client (C20: concurrent use of a node). The calls are not
// recorded one by one (the race detector is the oracle); the number of calls is.
func (c *Cluster) Stress(a Action) {
	ids := append([]string(nil), c.Order...)
	nodes := map[string]*Node{}
	for _, id := range ids {
		nodes[id] = c.Nodes[id] // the goroutines only touch nodes that exist now (the map itself is the driver's)
	}
	for g := 0; g < a.K; g++ {
		seed := uint64(a.Client)*2654435761 + uint64(g)*40503 + 1
		c.goTracked(func() {
			next := func() uint64 {
				seed ^= seed << 13
				seed ^= seed >> 7
				seed ^= seed << 17
				return seed
			}
			for i := 0; i < a.Sel; i++ {
				n := nodes[ids[next()%uint64(len(ids))]]
				in := n.Current()
				if in == nil || in.dead.Load() || !in.started.Load() {
					time.Sleep(time.Millisecond)
					continue
				}
				r := in.raft
				func() {
					defer func() { _ = recover() }()
					switch next() % 10 {
					case 0, 1:
						_ = r.Status()
					case 2:
						cf := r.Configuration()
						_ = cf.String()
					case 3, 4, 5:
						f := r.SubmitOperation([]byte(fmt.Sprintf("stress-%d-%d-%d", a.Client, g, i)), raft.Replicated, 20*time.Millisecond)
						_ = f.Await()
					case 6:
						f := r.SubmitOperation([]byte("r"), raft.LinearizableReadOnly, 20*time.Millisecond)
						_ = f.Await()
					case 7:
						f := r.SubmitOperation([]byte("l"), raft.LeaseBasedReadOnly, 20*time.Millisecond)
						_ = f.Await()
					case 8:
						who := ids[next()%uint64(len(ids))] // id and address always agree (address == id in the simulator)
						f := r.AddServer(who, who, next()%2 == 0, 10*time.Millisecond)
						_ = f.Await()
					case 9:
						_ = r.Status().State.String()
					}
				}()
				c.mu.Lock()
				c.Labels["stress-calls"]++
				c.mu.Unlock()
				time.Sleep(time.Duration(next()%3000) * time.Microsecond)
			}
		})
	}
}
