package sim

import (
	"errors"
	"fmt"
	"os"
	"path/filepath"
	"time"

	"github.com/jmsadair/raft"
	"github.com/jmsadair/raft/logging"
)

// apiCall runs f with panic recovery and records the call.
func (c *Cluster) apiCall(node string, inc int, call, args, state string, bound time.Duration, f func() (string, error)) {
	start := time.Now()
	info := &ApiInfo{Call: call, Args: args, State: state, Bound: bound.Microseconds()}
	func() {
		defer func() {
			if r := recover(); r != nil {
				info.Panic = fmt.Sprint(r)
			}
		}()
		res, err := f()
		info.Result = res
		if err != nil {
			info.Err = err.Error()
		}
	}()
	info.DurUs = time.Since(start).Microseconds()
	c.rec.Add(Event{Kind: "api", Node: node, Inc: inc, Api: info})
}

var apiSeq int

func payloadOf(kind string) []byte {
	apiSeq++
	switch kind {
	case "nil":
		return nil
	case "empty":
		return []byte{}
	case "large":
		b := make([]byte, 1<<20)
		for i := range b {
			b[i] = byte(i + apiSeq)
		}
		copy(b, fmt.Sprintf("api-large-%d", apiSeq))
		return b
	}
	return []byte(fmt.Sprintf("api-op-%d", apiSeq))
}

func sameResult[T raft.Response](a, b raft.Result[T]) bool {
	if (a.Error() == nil) != (b.Error() == nil) {
		return false
	}
	if a.Error() != nil {
		return a.Error().Error() == b.Error().Error()
	}
	return fmt.Sprintf("%+v", a.Success()) == fmt.Sprintf("%+v", b.Success())
}

// API executes one raw public-API call of C18 on the node's current instance
// (whatever state it is in). Calls that return futures are awaited in a tracked goroutine.
func (c *Cluster) API(a Action) bool {
	n := c.Nodes[a.Node]
	if n == nil || n.cur == nil {
		return false
	}
	in := n.cur
	if in.dead.Load() {
		return false
	}
	r := in.raft
	state := "unstarted"
	if in.started.Load() {
		func() {
			defer func() { _ = recover() }()
			state = stateName(r.Status().State)
		}()
	}
	id, inc := a.Node, in.inc
	timeout := time.Duration(a.Timeout) * time.Millisecond
	instant := time.Millisecond
	switch a.Kind {
	case "status":
		c.apiCall(id, inc, "Status+render", "", state, instant, func() (string, error) {
			st := r.Status()
			return fmt.Sprintf("%v %s %+v", st, st.State.String(), st), nil
		})
	case "configuration":
		c.apiCall(id, inc, "Configuration+render", "", state, instant, func() (string, error) {
			cf := r.Configuration()
			return cf.String() + fmt.Sprintf(" %v", cf), nil
		})
	case "render":
		for _, s := range []raft.State{raft.Leader, raft.Follower, raft.PreCandidate, raft.Candidate, raft.Shutdown} {
			s := s
			c.apiCall(id, inc, "State.String", fmt.Sprintf("%d", uint32(s)), state, instant, func() (string, error) { return s.String(), nil })
		}
		for _, o := range []raft.OperationType{raft.Replicated, raft.LinearizableReadOnly, raft.LeaseBasedReadOnly} {
			o := o
			c.apiCall(id, inc, "OperationType.String", fmt.Sprintf("%d", uint32(o)), state, instant, func() (string, error) { return o.String(), nil })
		}
	case "submit":
		ot := raft.OperationType(a.K)
		c.goTracked(func() {
			var fut raft.Future[raft.OperationResponse]
			c.apiCall(id, inc, "SubmitOperation", fmt.Sprintf("type=%d payload=%s timeout=%v", a.K, a.Mode, timeout), state, instant, func() (string, error) {
				fut = r.SubmitOperation(payloadOf(a.Mode), ot, timeout)
				return "", nil
			})
			if fut == nil {
				return
			}
			bound := timeout
			if bound < 0 {
				bound = 0
			}
			bound += time.Millisecond
			var res raft.Result[raft.OperationResponse]
			c.apiCall(id, inc, "Future.Await", fmt.Sprintf("operation type=%d timeout=%v", a.K, timeout), state, bound, func() (string, error) {
				res = fut.Await()
				if res.Error() != nil {
					return fmt.Sprintf("%v", res.Error()), nil
				}
				return fmt.Sprintf("%+v", res.Success().Operation.LogIndex), nil
			})
			if res != nil {
				c.apiCall(id, inc, "Future.Await(again)", "", state, instant, func() (string, error) {
					if again := fut.Await(); !sameResult(res, again) {
						return "", errors.New("second Await returned a different result")
					}
					return "", nil
				})
			}
		})
	case "add", "remove":
		c.goTracked(func() {
			var fut raft.Future[raft.Configuration]
			c.apiCall(id, inc, a.Kind+"Server", fmt.Sprintf("id=%q voter=%v timeout=%v", a.Node2, a.Voter, timeout), state, instant, func() (string, error) {
				if a.Kind == "add" {
					fut = r.AddServer(a.Node2, a.Node2, a.Voter, timeout)
				} else {
					fut = r.RemoveServer(a.Node2, timeout)
				}
				return "", nil
			})
			if fut == nil {
				return
			}
			bound := timeout
			if bound < 0 {
				bound = 0
			}
			bound += time.Millisecond
			var res raft.Result[raft.Configuration]
			c.apiCall(id, inc, "Future.Await", fmt.Sprintf("%s id=%q timeout=%v", a.Kind, a.Node2, timeout), state, bound, func() (string, error) {
				res = fut.Await()
				if res.Error() != nil {
					return fmt.Sprintf("%v", res.Error()), nil
				}
				cf := res.Success()
				return cf.String(), nil
			})
			if res != nil {
				c.apiCall(id, inc, "Future.Await(again)", "", state, instant, func() (string, error) {
					if again := fut.Await(); !sameResult(res, again) {
						return "", errors.New("second Await returned a different result")
					}
					return "", nil
				})
			}
		})
	case "bootstrap":
		members := map[string]string{}
		switch a.Mode {
		case "valid":
			for _, m := range c.Order {
				members[m] = m
			}
		case "missing-self":
			members["n9"] = "n9"
		case "wrong-address":
			members[id] = "elsewhere"
		}
		c.apiCall(id, inc, "Bootstrap", a.Mode, state, instant, func() (string, error) { return "", r.Bootstrap(members) })
	case "start", "restart":
		// raw lifecycle call on the same instance, whatever its state
		if in.stopping.Load() && !in.stopped.Load() {
			return false // a Stop() is still in progress on this instance
		}
		wasDown := in.stopped.Load() || !in.started.Load()
		c.apiCall(id, inc, a.Kind, "", state, instant, func() (string, error) {
			var err error
			if a.Kind == "start" {
				err = r.Start()
			} else {
				err = r.Restart()
			}
			if err == nil && wasDown {
				in.started.Store(true)
				in.stopping.Store(false)
				in.stopped.Store(false)
				n.everStarted = true
				c.rec.Add(Event{Kind: "fault", Node: id, Inc: inc, Fault: &FaultInfo{What: "start", Arg: "same instance: " + a.Kind}})
			}
			return "", err
		})
	case "stop":
		bound := 2*c.ET() + 50*time.Millisecond
		in.stopping.Store(true)
		in.stopCalls.Add(1)
		c.goTracked(func() {
			c.apiCall(id, inc, "Stop", "", state, bound, func() (string, error) {
				r.Stop()
				return "", nil
			})
			// the instance counts as stopped once every Stop() call in flight has returned (a second
			// Stop() returns at once while the first one is still waiting for the node's loops)
			if in.stopCalls.Add(-1) == 0 {
				in.stopped.Store(true)
				c.rec.Add(Event{Kind: "fault", Node: id, Inc: inc, Fault: &FaultInfo{What: "stopped"}})
			}
		})
	case "newraft":
		// construction with valid and invalid options; the node is never started
		dir := filepath.Join(c.Base, fmt.Sprintf("scratch-%d", c.Rec().Len()))
		_ = os.MkdirAll(dir, 0o777)
		c.apiCall(id, inc, "NewRaft", a.Mode, state, instant, func() (string, error) {
			fsm := &LedgerFSM{in: in, id: -1}
			var opts []raft.Option
			addr := "127.0.0.1:0"
			switch a.Mode {
			case "nil-log":
				opts = append(opts, raft.WithLog(nil))
			case "nil-state":
				opts = append(opts, raft.WithStateStorage(nil))
			case "nil-snapshots":
				opts = append(opts, raft.WithSnapshotStorage(nil))
			case "nil-transport":
				opts = append(opts, raft.WithTransport(nil))
			case "bad-address":
				addr = "not an address"
			case "empty-address":
				addr = ""
			case "zero-timeouts":
				opts = append(opts, raft.WithElectionTimeout(0), raft.WithHeartbeatInterval(0), raft.WithLeaseDuration(0))
			}
			opts = append(opts, raft.WithLogLevel(logging.Fatal))
			rr, err := raft.NewRaft("x", addr, fsm, dir, opts...)
			if rr != nil {
				_ = rr.Status()
				_ = rr.Configuration()
			}
			return "", err
		})
	default:
		return false
	}
	return true
}
