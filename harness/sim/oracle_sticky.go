package sim

import "fmt"

// Sticky is the C16 oracle: from the "mark" action (T0: leader L established, everybody in its
// term, L's majority fixed) to the end of the history, L stays leader in the same term and
// every node of its majority reports that term.
type Sticky struct {
	leader   string
	term     uint64
	majority map[string]bool
	armed    bool
	status   map[string]StatusInfo
	viol     []Violation
	done     bool
	Marked   bool
}

func NewSticky() *Sticky {
	return &Sticky{status: map[string]StatusInfo{}, majority: map[string]bool{}}
}

func (s *Sticky) On(e *Event) []Violation {
	switch e.Kind {
	case "status":
		s.status[e.Node] = *e.Status
		if !s.armed || s.done {
			return nil
		}
		if e.Node == s.leader {
			if e.Status.State != "leader" || e.Status.Term != s.term {
				s.done = true
				return []Violation{{Property: "C16", Signature: "C16/leader-deposed", Msg: fmt.Sprintf("%s was leader of term %d in prompt contact with its majority %v; now it reports %s in term %d", s.leader, s.term, keys(s.majority), e.Status.State, e.Status.Term), Seqs: []int{e.Seq}}}
			}
		} else if s.majority[e.Node] && e.Status.Term != s.term {
			s.done = true
			return []Violation{{Property: "C16", Signature: "C16/majority-term-increased", Msg: fmt.Sprintf("majority node %s moved from term %d to term %d while leader %s was in prompt contact with its majority", e.Node, s.term, e.Status.Term, s.leader), Seqs: []int{e.Seq}}}
		}
	case "action":
		if e.Action.Op == "mark" && !s.armed {
			s.leader = e.Action.Node
			s.term = s.status[s.leader].Term
			for _, id := range e.Action.Set {
				s.majority[id] = true
			}
			s.armed = true
			s.Marked = true
		}
	}
	return nil
}

func (s *Sticky) Finish() []Violation { return nil }

func keys(m map[string]bool) []string {
	var out []string
	for k := range m {
		out = append(out, k)
	}
	return out
}
