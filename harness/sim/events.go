// Package sim is engine E-SIM: a virtual-time, schedule-owning simulator around
// real jmsadair/raft nodes (see DESIGN.md section 2.1).
package sim

import (
	"encoding/json"
	"fmt"
	"hash/fnv"
	"sync"
	"time"

	"github.com/jmsadair/raft"
)

// EntryInfo summarises one log entry (index, term, type, hash of data).
type EntryInfo struct {
	I uint64 `json:"i"`
	T uint64 `json:"t"`
	Y uint32 `json:"y"`
	H uint64 `json:"h"`
}

var sharedCodec raft.Transport

func init() {
	c, err := raft.NewTransport("127.0.0.1:0")
	if err != nil {
		panic(err)
	}
	sharedCodec = c
}

// entryHash identifies the content of a log entry. Configuration entries are
// compared by their decoded content: their encoding (a protobuf map) is not
// deterministic, and the properties speak of configurations, not of bytes.
func entryHash(ty raft.LogEntryType, data []byte) uint64 {
	if ty == raft.ConfigurationEntry {
		if cf, err := sharedCodec.DecodeConfiguration(data); err == nil {
			return HashBytes([]byte("conf:" + confString(&cf)))
		}
	}
	return HashBytes(data)
}

func HashBytes(b []byte) uint64 {
	h := fnv.New64a()
	h.Write(b)
	return h.Sum64()
}

// MsgInfo describes one RPC (request and, once handled, response).
type MsgInfo struct {
	ID      int         `json:"id"`
	Kind    string      `json:"kind"` // AE | RV | IS
	Src     string      `json:"src"`
	Dst     string      `json:"dst"`
	Term    uint64      `json:"term"`
	From    string      `json:"from,omitempty"` // LeaderID / CandidateID named in the request
	Prev    uint64      `json:"prev,omitempty"` // AE prevLogIndex | RV lastLogIndex | IS lastIncludedIndex
	PrevT   uint64      `json:"prevt,omitempty"`
	Ents    []EntryInfo `json:"ents,omitempty"`
	Commit  uint64      `json:"commit,omitempty"`
	Prevote bool        `json:"prevote,omitempty"`
	Offset  int64       `json:"off,omitempty"`
	Len     int         `json:"len,omitempty"`
	Done    bool        `json:"done,omitempty"`
	DataH   uint64      `json:"datah,omitempty"`
	ConfH   uint64      `json:"confh,omitempty"`
	SrcInc  int         `json:"srcinc"`
	DstInc  int         `json:"dstinc,omitempty"`
	SentSeq int         `json:"sentseq,omitempty"`
	Dup     bool        `json:"dup,omitempty"`
	// response
	RTerm   uint64 `json:"rterm,omitempty"`
	Success bool   `json:"ok,omitempty"`
	RIndex  uint64 `json:"rindex,omitempty"`
	Written int64  `json:"written,omitempty"`
	Err     string `json:"err,omitempty"`
}

type StorageInfo struct {
	Op    string      `json:"op"` // log.append log.truncate log.compact log.discard state.set snap.new snap.write snap.close snap.discard log.state(restart) state.get(restart)
	Ents  []EntryInfo `json:"ents,omitempty"`
	Index uint64      `json:"index,omitempty"`
	Term  uint64      `json:"term,omitempty"`
	Vote  string      `json:"vote,omitempty"`
	Len   int         `json:"len,omitempty"`
	File  int         `json:"file,omitempty"`
	Err   string      `json:"err,omitempty"`
	Ord   int         `json:"ord,omitempty"` // ordinal of this storage operation on this node incarnation
	Ctx   string      `json:"ctx,omitempty"` // which handler / loop issued it
}

type ApplyInfo struct {
	FSM    int    `json:"fsm"` // state machine instance id
	Index  uint64 `json:"index"`
	Term   uint64 `json:"term"`
	H      uint64 `json:"h"`
	Result int    `json:"result"`         // ledger length after the application
	Read   bool   `json:"read,omitempty"` // read-only operation
	RType  uint32 `json:"rtype,omitempty"`
	Begin  bool   `json:"begin,omitempty"` // start of the call (the call may sleep)
}

type RestoreInfo struct {
	FSM   int    `json:"fsm"`
	Len   int    `json:"len"`
	Last  uint64 `json:"last"`
	H     uint64 `json:"h"` // hash of the ledger
	Begin bool   `json:"begin,omitempty"`
}

type SnapInfo struct {
	File   int    `json:"file"`
	Index  uint64 `json:"index"`
	Term   uint64 `json:"term"`
	ConfH  uint64 `json:"confh"`
	Conf   string `json:"conf,omitempty"`
	Len    int    `json:"len"`
	H      uint64 `json:"h"`
	Origin string `json:"origin"` // local | received
	// decoded ledger of the payload
	LedgerLen  int      `json:"ledger_len"`
	LedgerLast uint64   `json:"ledger_last"`
	LedgerH    uint64   `json:"ledger_h"`
	Ledger     []uint64 `json:"ledger,omitempty"` // indices
	DecodeErr  string   `json:"decode_err,omitempty"`
}

type StatusInfo struct {
	Term    uint64 `json:"term"`
	Commit  uint64 `json:"commit"`
	Applied uint64 `json:"applied"`
	State   string `json:"state"`
}

type ConfInfo struct {
	Index   uint64          `json:"index"`
	Members map[string]bool `json:"members"` // id -> isVoter
}

type ClientInfo struct {
	Client  int    `json:"client"`
	Op      int    `json:"op"`
	Type    string `json:"type"` // write | linread | leaseread | add | remove
	H       uint64 `json:"h,omitempty"`
	Target  string `json:"target"`
	Timeout int64  `json:"timeout_ms,omitempty"`
	Arg     string `json:"arg,omitempty"`
	Voter   bool   `json:"voter,omitempty"`
	// return
	Outcome   string    `json:"outcome,omitempty"` // ok | notleader | timeout | invalidlease | error:<...> | indeterminate
	Index     uint64    `json:"index,omitempty"`
	Term      uint64    `json:"term,omitempty"`
	RH        uint64    `json:"rh,omitempty"` // hash of returned bytes
	Result    int       `json:"result,omitempty"`
	Last      uint64    `json:"last,omitempty"`
	Conf      *ConfInfo `json:"conf,omitempty"`
	InvokeSeq int       `json:"invoke_seq,omitempty"`
}

type FaultInfo struct {
	What  string `json:"what"` // crash | stop | stopped | start | restart | link | heal | partition
	Arg   string `json:"arg,omitempty"`
	Err   string `json:"err,omitempty"`
	Image bool   `json:"image,omitempty"`
}

type DiskInfo struct {
	Index   uint64   `json:"index"`
	Term    uint64   `json:"term"`
	H       uint64   `json:"h"`
	Voters  []string `json:"voters"`
	Holders []string `json:"holders"`
	When    string   `json:"when"` // apply | ack
	// Configs: voter sets of the configurations running nodes report at this instant (dynamic
	// membership); empty for static membership, where Voters is the fixed voter set
	Configs [][]string `json:"configs,omitempty"`
}

// ApiInfo records one raw public-API call (C18).
type ApiInfo struct {
	Call   string `json:"call"`
	Args   string `json:"args,omitempty"`
	State  string `json:"state,omitempty"` // node state when the call was made
	Panic  string `json:"panic,omitempty"`
	Err    string `json:"err,omitempty"`
	Result string `json:"result,omitempty"`
	DurUs  int64  `json:"dur_us"`
	Bound  int64  `json:"bound_us,omitempty"`
}

// Event is one element of the recorded history (DESIGN.md appendix A).
type Event struct {
	Seq  int    `json:"seq"`
	VT   int64  `json:"vt"` // virtual ns since case start
	Kind string `json:"k"`
	Node string `json:"n,omitempty"`
	Inc  int    `json:"inc,omitempty"`

	Action  *Action      `json:"action,omitempty"`
	Msg     *MsgInfo     `json:"msg,omitempty"`
	Storage *StorageInfo `json:"st,omitempty"`
	Apply   *ApplyInfo   `json:"apply,omitempty"`
	Restore *RestoreInfo `json:"restore,omitempty"`
	Snap    *SnapInfo    `json:"snap,omitempty"`
	Status  *StatusInfo  `json:"status,omitempty"`
	Conf    *ConfInfo    `json:"conf,omitempty"`
	Client  *ClientInfo  `json:"client,omitempty"`
	Fault   *FaultInfo   `json:"fault,omitempty"`
	Disk    *DiskInfo    `json:"disk,omitempty"`
	Api     *ApiInfo     `json:"api,omitempty"`
	Note    string       `json:"note,omitempty"`
}

// Violation is what an oracle reports.
type Violation struct {
	Property  string `json:"property"`
	Signature string `json:"signature"`
	Msg       string `json:"msg"`
	Seqs      []int  `json:"seqs,omitempty"`
}

func (v Violation) String() string {
	return fmt.Sprintf("[%s] %s: %s (events %v)", v.Property, v.Signature, v.Msg, v.Seqs)
}

// Oracle consumes the history incrementally. Oracles are pure functions of
// the event stream: feeding a saved history reproduces their verdict.
type Oracle interface {
	On(e *Event) []Violation
	// Finish is called once when the case ends (end-of-history checks).
	Finish() []Violation
}

// Recorder assigns the global order and feeds the oracles.
type Recorder struct {
	mu      sync.Mutex
	start   time.Time
	Events  []Event
	oracles []Oracle
	viols   []Violation
	keep    bool
}

func NewRecorder(start time.Time, keep bool, oracles ...Oracle) *Recorder {
	return &Recorder{start: start, oracles: oracles, keep: keep}
}

// Add records one event and returns its sequence number.
func (r *Recorder) Add(e Event) int {
	r.mu.Lock()
	defer r.mu.Unlock()
	return r.addLocked(e)
}

func (r *Recorder) addLocked(e Event) int {
	e.Seq = len(r.Events) + 1
	e.VT = int64(time.Since(r.start))
	r.Events = append(r.Events, e)
	ep := &r.Events[len(r.Events)-1]
	for _, o := range r.oracles {
		if vs := o.On(ep); len(vs) > 0 {
			r.viols = append(r.viols, vs...)
		}
	}
	return e.Seq
}

func (r *Recorder) Violations() []Violation {
	r.mu.Lock()
	defer r.mu.Unlock()
	return append([]Violation(nil), r.viols...)
}

func (r *Recorder) Finish() []Violation {
	r.mu.Lock()
	defer r.mu.Unlock()
	for _, o := range r.oracles {
		if vs := o.Finish(); len(vs) > 0 {
			r.viols = append(r.viols, vs...)
		}
	}
	return append([]Violation(nil), r.viols...)
}

func (r *Recorder) Len() int {
	r.mu.Lock()
	defer r.mu.Unlock()
	return len(r.Events)
}

// History returns a copy of the events (for replay files).
func (r *Recorder) History() []Event {
	r.mu.Lock()
	defer r.mu.Unlock()
	return append([]Event(nil), r.Events...)
}

// Since returns a copy of the events recorded after the first n.
func (r *Recorder) Since(n int) []Event {
	r.mu.Lock()
	defer r.mu.Unlock()
	if n > len(r.Events) {
		n = len(r.Events)
	}
	return append([]Event(nil), r.Events[n:]...)
}

// Judge feeds a saved history to fresh oracles (deterministic re-judgement).
func Judge(history []Event, oracles ...Oracle) []Violation {
	var out []Violation
	for i := range history {
		for _, o := range oracles {
			out = append(out, o.On(&history[i])...)
		}
	}
	for _, o := range oracles {
		out = append(out, o.Finish()...)
	}
	return out
}

func MarshalHistory(h []Event) json.RawMessage {
	b, _ := json.Marshal(h)
	return b
}
