package props

import (
	"encoding/json"
	"fmt"
	"os"
	"sort"
	"testing"
	"time"

	"github.com/jmsadair/raft"
	"pgregory.net/rapid"

	"verif/harness/sim"
	"verif/harness/stats"
)

// C11 (inputs part): InstallSnapshot request sequences over two sender
// snapshots against a seeded follower, interleaved with AppendEntries and
// RequestVote probes; oracle = constraints B3 + twin differential (a
// reference-model twin holding the full log must answer the probes alike).

type isStep struct {
	Op    string `json:"op"`              // is | ae | rv
	Snap  int    `json:"snap,omitempty"`  // 0 = A, 1 = B
	Chunk int    `json:"chunk,omitempty"` // chunk number within the drawn chunking
	DOff  int64  `json:"doff,omitempty"`  // offset error
	DTerm int    `json:"dterm,omitempty"` // request term relative to the node's current term
	From  string `json:"from,omitempty"`
	AE    *aeReq `json:"ae,omitempty"`
	LastI uint64 `json:"last_i,omitempty"`
	LastT uint64 `json:"last_t,omitempty"`
}

type c11Script struct {
	World  c06Script  `json:"world"`
	Labels [2]uint64  `json:"labels"` // last included index of snapshot A and B (truth indices)
	Pads   [2]int     `json:"pads"`
	Cuts   [2][]int   `json:"cuts"` // chunk boundaries per snapshot (offsets, ascending, excluding 0 and len)
	Steps  []isStep   `json:"steps"`
	Header sim.Header `json:"header"`
}

func (s *c11Script) snapBytes(k int) []byte {
	var items []sim.LedgerItem
	for _, e := range s.World.Truth {
		if e.Y == 1 && e.I <= s.Labels[k] {
			items = append(items, sim.LedgerItem{Index: e.I, Term: e.T, H: sim.HashBytes(e.data())})
		}
	}
	return sim.EncodeLedger(items, s.Pads[k])
}

func (s *c11Script) chunk(k, n int) (off int64, b []byte, done bool) {
	all := s.snapBytes(k)
	bounds := append(append([]int{0}, s.Cuts[k]...), len(all))
	if n >= len(bounds)-1 {
		n = len(bounds) - 2
	}
	return int64(bounds[n]), all[bounds[n]:bounds[n+1]], n == len(bounds)-2
}

type c11Outcome struct {
	classes []string
	sig     string
	detail  string
}

func runC11(t *testing.T, base string, s *c11Script, next func(cur sim.StatusInfo, m *followerModel) (isStep, bool)) (*sim.Result, c11Outcome) {
	var out c11Outcome
	fail := func(sig, format string, a ...any) {
		if out.sig == "" {
			out.sig, out.detail = sig, fmt.Sprintf(format, a...)
		}
	}
	w := &s.World
	res := sim.RunNode(t, base, s.Header, []sim.Oracle{sim.NewSafety()}, func(c *sim.Cluster) {
		members := map[string]bool{"n1": true, "n2": true, "n3": true}
		seed := sim.Seed{Members: members, Boundary: w.Boundary, Term: w.Term}
		for _, e := range w.Follower {
			seed.Entries = append(seed.Entries, sim.SeedEntry{Index: e.I, Term: e.T, Type: e.Y, Data: e.data()})
		}
		if err := c.SeedNode("n1", seed); err != nil {
			panic(fmt.Sprintf("seed: %v", err))
		}
		if err := c.StartNode("n1", nil); err != nil {
			panic(fmt.Sprintf("start: %v", err))
		}
		c.Sleep(time.Millisecond)
		conf := c.EncodeConf(members, 1)
		// the sender's snapshots exist (as far as the history is concerned) on the sender n2
		for k := 0; k < 2; k++ {
			b := s.snapBytes(k)
			items, _ := sim.DecodeLedger(b)
			var idx []uint64
			for _, it := range items {
				idx = append(idx, it.Index)
			}
			c.Rec().Add(sim.Event{Kind: "snapfile", Node: "n2", Snap: &sim.SnapInfo{File: -1 - k, Index: s.Labels[k], Term: w.truthTerm(s.Labels[k]), Len: len(b), H: sim.HashBytes(b), Origin: "local", Ledger: idx, LedgerLen: len(idx)}})
		}
		// twin: reference model of a node holding the same history with nothing compacted
		m := &followerModel{term: w.Term}
		m.ents = append([]wEntry{{I: 1, T: 1, Y: 2}}, w.Follower...)
		m.commit = w.Boundary
		boundary := w.Boundary // the real node's compaction boundary as far as the harness knows
		if w.Commit > m.commit {
			pt, _ := m.termAt(w.Commit)
			r, err := c.Inject("n2", "n1", raft.AppendEntriesRequest{LeaderID: "n2", Term: w.Term, PrevLogIndex: w.Commit, PrevLogTerm: pt, LeaderCommit: w.Commit})
			if err != nil || !r.(raft.AppendEntriesResponse).Success {
				panic(fmt.Sprintf("priming heartbeat failed: %v %+v", err, r))
			}
			m.commit = w.Commit
			c.Sleep(time.Millisecond)
		}
		truthAll := append([]wEntry{{I: 1, T: 1, Y: 2}}, w.Truth...)
		// syncTwin notices a completed installation (the node's log now starts at a snapshot label; an
		// installation may complete long after its last request) and mirrors its effect on the twin: a
		// snapshot whose boundary entry the node did not hold replaces the log by the sender's prefix.
		syncTwin := func() {
			first, _, _ := c.LiveLog("n1")
			if first == boundary || first == 0 {
				return
			}
			label := first
			boundary = label
			lt := w.truthTerm(label)
			if tt, ok := m.termAt(label); !(ok && tt == lt) {
				m.ents = append([]wEntry(nil), truthAll[:label]...)
				out.classes = append(out.classes, "install-replaced-log")
			} else {
				out.classes = append(out.classes, "install-compacted-log")
			}
			if m.commit < label {
				m.commit = label
			}
		}
		i := 0
		pending := []chan sim.InjectResult{}
		for out.sig == "" {
			v := c.Observe()
			cur := v.Status["n1"]
			if cur.Term > m.term {
				m.term = cur.Term
			}
			var st isStep
			if next != nil {
				var ok bool
				st, ok = next(cur, m)
				if !ok {
					break
				}
				s.Steps = append(s.Steps, st)
			} else {
				if i >= len(s.Steps) {
					break
				}
				st = s.Steps[i]
			}
			i++
			syncTwin()
			switch st.Op {
			case "is":
				off, b, done := s.chunk(st.Snap, st.Chunk)
				term := int64(cur.Term) + int64(st.DTerm)
				if term < 0 {
					term = 0
				}
				label := s.Labels[st.Snap]
				lt := w.truthTerm(label)
				preApplied := cur.Applied
				ch := c.InjectAsync(st.From, "n1", raft.InstallSnapshotRequest{LeaderID: st.From, Term: uint64(term), LastIncludedIndex: label, LastIncludedTerm: lt,
					Configuration: conf, Bytes: b, Offset: off + st.DOff, Done: done})
				c.Sleep(200 * time.Microsecond)
				pending = append(pending, ch)
				cls := "is-chunk"
				if st.DOff != 0 {
					cls = "is-wrong-offset"
				}
				if uint64(term) < cur.Term {
					cls = "is-stale-term"
				}
				out.classes = append(out.classes, cls, fmt.Sprintf("is-snap%d", st.Snap))
				if label <= preApplied {
					out.classes = append(out.classes, "is-label-at-or-below-applied")
				}
				syncTwin()
			case "ae":
				rq := *st.AE
				if rq.Term < cur.Term && st.DTerm >= 0 {
					rq.Term = cur.Term
				}
				pre := *m
				pre.ents = append([]wEntry(nil), m.ents...)
				accept, _, class := m.recv(rq)
				resp, err := c.Inject(rq.Leader, "n1", raft.AppendEntriesRequest{LeaderID: rq.Leader, Term: rq.Term, PrevLogIndex: rq.Prev, PrevLogTerm: rq.PrevT,
					Entries: toRaftEntries(rq.Ents), LeaderCommit: rq.Commit})
				c.Sleep(100 * time.Microsecond)
				if err != nil {
					fail("C11/handler-error", "AppendEntries probe returned an error: %v", err)
					break
				}
				r := resp.(raft.AppendEntriesResponse)
				desc := fmt.Sprintf("AppendEntries probe %+v (class %s) after snapshot boundary %d; twin log %v", rq, class, boundary, pre.ents)
				if rq.Prev < boundary {
					// the compacted node cannot verify prev: "rejected, or accepted with a log that agrees with the sender"
					out.classes = append(out.classes, "probe-below-boundary")
					if !r.Success {
						*m = pre
						if rq.Term > m.term {
							m.term = rq.Term
						}
					}
				} else {
					if rq.Prev == boundary && boundary > 0 {
						out.classes = append(out.classes, "probe-at-boundary")
					}
					if r.Success != accept {
						fail("C11/probe-decision-differs", "%s: node answered Success=%v, a node holding the full log answers %v", desc, r.Success, accept)
					}
				}
				if r.Success {
					// the suffix beyond the boundary must agree with the twin
					first, got, _ := c.LiveLog("n1")
					for _, g := range got {
						if g.I <= first {
							continue
						}
						tt, ok := m.termAt(g.I)
						if !ok || tt != g.T {
							fail("C11/log-differs-from-full-log-twin", "%s: after the probe the node holds (%d,t%d), the twin holds term %d (present=%v)", desc, g.I, g.T, tt, ok)
							break
						}
					}
					if last := first + uint64(len(got)); last != m.last() && out.sig == "" {
						fail("C11/log-differs-from-full-log-twin", "%s: after the probe the node's last index is %d, the twin's %d", desc, last, m.last())
					}
				}
				out.classes = append(out.classes, "probe-ae")
			case "rv":
				// a vote decision exposes the node's last index/term
				c.Sleep(c.ET() + time.Millisecond)
				cur = c.Observe().Status["n1"]
				lastI := m.last()
				lastT, _ := m.termAt(lastI)
				resp, err := c.Inject(st.From, "n1", raft.RequestVoteRequest{CandidateID: st.From, Term: cur.Term + 1, LastLogIndex: st.LastI, LastLogTerm: st.LastT})
				c.Sleep(100 * time.Microsecond)
				if err != nil {
					fail("C11/handler-error", "RequestVote probe returned an error: %v", err)
					break
				}
				want := !(st.LastT < lastT || (st.LastT == lastT && st.LastI < lastI))
				if got := resp.(raft.RequestVoteResponse).VoteGranted; got != want {
					fail("C11/vote-differs-from-full-log-twin", "RequestVote probe (candidate last entry (%d,t%d)): node granted=%v, a node holding the full log (last entry (%d,t%d)) grants=%v; snapshot boundary %d", st.LastI, st.LastT, got, lastI, lastT, want, boundary)
				}
				m.term = cur.Term + 1
				out.classes = append(out.classes, "probe-rv")
			}
			if len(c.Rec().Violations()) > 0 {
				break
			}
		}
		// let blocked handlers finish (they wait for the apply loop or are released at shutdown)
		c.Sleep(10 * time.Millisecond)
	})
	return res, out
}

const c11Rule = "one real follower seeded from the C06 world (log shorter / longer / conflicting / matching at the snapshot label, optional compacted prefix); two sender snapshots A and B (labels drawn among truth indices, equal or distinct, payload sizes drawn independently, 1-3 chunks under a drawn chunking); up to 8 requests over their chunks in any order with duplicates (hence at offsets the receiver does not expect) and lower/equal/higher terms, interleaved with AppendEntries and RequestVote probes; oracle: applied/commit index never decrease, committed entries beyond the label survive, every snapshot file that becomes visible equals A or B exactly (label and bytes), and the probes are answered like a reference-model twin holding the full log (prev >= boundary: same decision and same log suffix; votes: same decision); " +
	"non-trivial = the sequence contained a reordered, duplicated or cross-snapshot chunk, or a probe exactly at the boundary; distinct by script hash"

func c11Finish(t fataler, s *c11Script, res *sim.Result, out c11Outcome, file string) (string, string) {
	col := stats.For("C11")
	if res.Tainted != "" {
		col.Discard(res.Tainted)
		return "", ""
	}
	sig, detail := out.sig, out.detail
	for _, v := range res.Violations {
		ours := v.Property == "C11"
		if !ours {
			continue
		}
		if sig == "" || (stats.IsKnown("C11", sig) && !stats.IsKnown("C11", v.Signature)) {
			sig, detail = v.Signature, v.String()
		}
		if stats.IsKnown("C11", v.Signature) {
			col.AddFinding(stats.Finding{Signature: v.Signature, Detail: v.String(), Known: true})
		}
	}
	// classification
	seen := map[string]bool{}
	var labels []string
	for _, c := range out.classes {
		if !seen[c] {
			seen[c] = true
			labels = append(labels, "step:"+c)
		}
	}
	// reordered / duplicated / cross-snapshot chunks
	type key struct{ snap, chunk int }
	var seq []key
	for _, st := range s.Steps {
		if st.Op == "is" {
			seq = append(seq, key{st.Snap, st.Chunk})
		}
	}
	dup, reorder, cross := false, false, false
	cnt := map[key]int{}
	for i, k := range seq {
		cnt[k]++
		if cnt[k] > 1 {
			dup = true
		}
		if i > 0 {
			if seq[i-1].snap != k.snap {
				cross = true
			} else if k.chunk < seq[i-1].chunk {
				reorder = true
			}
		}
	}
	if dup {
		labels = append(labels, "seq:duplicate-chunk")
	}
	if reorder {
		labels = append(labels, "seq:reordered-chunk")
	}
	if cross {
		labels = append(labels, "seq:cross-snapshot")
	}
	nt := dup || reorder || cross || seen["probe-at-boundary"]
	sort.Strings(labels)
	b, _ := json.Marshal(s)
	col.Count("steps", int64(len(s.Steps)))
	col.Case(nt, stats.Hash64(string(b)), labels, func() any { return s })
	if sig != "" && !stats.IsKnown("C11", sig) && file == "" {
		violation(t, "C11", "E-NODE/snapshot", sig, detail, len(s.Steps), s, res.History)
	}
	return sig, detail
}

func genC11(rt *rapid.T) *c11Script {
	s := &c11Script{}
	w := genWorld(rt, 5, 3)
	s.World = *w
	s.Header = sim.Header{ET: 300, HB: 50, LD: 50, TimerSeed: 1, Tape: []byte{0}, MaxDelayUs: 200}
	L := uint64(1 + len(w.Truth))
	lo := w.Commit
	if lo < 1 {
		lo = 1
	}
	// snapshots cover committed state of the sender: labels among truth indices >= follower commit
	a := uint64(rapid.IntRange(int(lo), int(L)).Draw(rt, "labelA"))
	b := uint64(rapid.IntRange(int(a), int(L)).Draw(rt, "labelB"))
	s.Labels = [2]uint64{a, b}
	for k := 0; k < 2; k++ {
		s.Pads[k] = rapid.SampledFrom([]int{0, 1, 50, 50, 32 * 1024}).Draw(rt, "pad")
		if k == 1 && s.Labels[0] == s.Labels[1] {
			// one sender in one term has one snapshot per label: equal labels mean the same bytes
			// (possibly chunked differently); different bytes under one label cannot be told apart by
			// any receiver and no sender produces them
			s.Pads[1] = s.Pads[0]
		}
		n := len(s.snapBytes(k))
		chunks := rapid.IntRange(1, 3).Draw(rt, "chunks")
		set := map[int]bool{}
		for j := 1; j < chunks && n > 1; j++ {
			set[rapid.IntRange(1, n-1).Draw(rt, "cut")] = true
		}
		for c := range set {
			s.Cuts[k] = append(s.Cuts[k], c)
		}
		sort.Ints(s.Cuts[k])
	}
	return s
}

func genC11Step(rt *rapid.T, s *c11Script, cur sim.StatusInfo, m *followerModel, progress *[2]int) isStep {
	switch rapid.SampledFrom([]string{"is", "is", "is", "is", "ae", "ae", "rv"}).Draw(rt, "op") {
	case "ae":
		rq := genAE(rt, &s.World, cur.Term, 3)
		rq.Restart = false
		return isStep{Op: "ae", AE: &rq}
	case "rv":
		li := m.last()
		lt, _ := m.termAt(li)
		dI := rapid.SampledFrom([]int{-1, 0, 0, 1}).Draw(rt, "dI")
		dT := rapid.SampledFrom([]int{-1, 0, 0, 0, 1}).Draw(rt, "dT")
		ci, ct := int64(li)+int64(dI), int64(lt)+int64(dT)
		if ci < 0 {
			ci = 0
		}
		if ct < 0 {
			ct = 0
		}
		return isStep{Op: "rv", From: rapid.SampledFrom([]string{"n2", "n3"}).Draw(rt, "cand"), LastI: uint64(ci), LastT: uint64(ct)}
	}
	k := rapid.IntRange(0, 1).Draw(rt, "snap")
	nchunks := len(s.Cuts[k]) + 1
	chunk := progress[k]
	switch rapid.IntRange(0, 5).Draw(rt, "order") {
	case 0:
		chunk = rapid.IntRange(0, nchunks-1).Draw(rt, "anyChunk") // reordered / duplicate
	case 1:
		if chunk > 0 {
			chunk-- // duplicate of the previous one
		}
	}
	if chunk >= nchunks {
		chunk = nchunks - 1
	}
	progress[k] = chunk + 1
	st := isStep{Op: "is", Snap: k, Chunk: chunk, From: "n2"}
	// (chunks are always genuine (offset, bytes) pairs of the sender's file: an offset that does not
	// describe the bytes is something no sender produces; offset mismatches arise from reordering)
	st.DTerm = rapid.SampledFrom([]int{0, 0, 0, 0, 1, -1}).Draw(rt, "dterm")
	return st
}

func TestC11(t *testing.T) {
	base := scratchRoot(t)
	col := stats.For("C11")
	col.Rule = c11Rule
	n := 0
	rapid.Check(t, func(rt *rapid.T) {
		n++
		dir := fmt.Sprintf("%s/c%d", base, n)
		defer os.RemoveAll(dir)
		s := genC11(rt)
		steps := rapid.IntRange(1, 8).Draw(rt, "steps")
		k := 0
		var progress [2]int
		res, out := runC11(t, dir, s, func(cur sim.StatusInfo, m *followerModel) (isStep, bool) {
			if k >= steps {
				return isStep{}, false
			}
			k++
			return genC11Step(rt, s, cur, m, &progress), true
		})
		c11Finish(rt, s, res, out, "")
		if n%200 == 0 {
			col.Flush()
		}
	})
}

func TestCorpusC11(t *testing.T) {
	base := scratchRoot(t)
	files := corpusFiles("C11")
	if f := os.Getenv("VERIF_REPLAY"); f != "" {
		files = []string{f}
	}
	for i, f := range files {
		r, err := loadReplay(f)
		if err != nil {
			t.Fatalf("%s: %v", f, err)
		}
		if r.Engine != "E-NODE/snapshot" {
			// a cluster-schedule witness
			runSimCorpusFile(t, propC11Sim, base, i, f, r)
			continue
		}
		var s c11Script
		if err := json.Unmarshal(r.Script, &s); err != nil {
			t.Fatalf("%s: %v", f, err)
		}
		res, out := runC11(t, fmt.Sprintf("%s/r%d", base, i), &s, nil)
		sig, detail := c11Finish(t, &s, res, out, f)
		corpusResult(t, "C11", f, sig, detail)
	}
}

// C11 (schedules part).
var propC11Sim = &simProp{
	ID: "C11",
	Profile: sim.Profile{
		Name: "C11", Voters: [2]int{2, 5}, Phases: [2]int{2, 7}, Patterns: []string{"P7", "P7", "P7", "P7", "free", "P6", "P11", "P1", "stopstart", "P12", "P3", "P8", "P26", "P33", "P33"},
		Writes: true, Crashes: true, Stops: true, Snapshots: "both", FSMDelays: true, BigPayload: true, EpilogueET: 10, Prologue: true,
	},
	Owns: []string{"C11"},
	Rule: c11Rule + "; plus cluster schedules with lagging followers, leader changes and new leader-side snapshots during a transfer judged by the same monotonicity / installed-bytes / committed-entries monitors (non-trivial there = a snapshot was received by some node)",
	Classify: func(res *sim.Result, f *histFacts) (bool, []string) {
		l := []string{"cluster-schedule"}
		if f.Installs > 0 {
			l = append(l, "cluster:snapshot-received")
		}
		return f.Installs > 0, l
	},
	Refine: func(res *sim.Result, v sim.Violation) string {
		return ""
	},
}

func TestC11Sim(t *testing.T) { runSimProp(t, propC11Sim) }
