package props

import (
	"testing"

	"verif/harness/sim"
)

var safetyPatterns = []string{"free", "free", "P1", "P1", "P2", "P3", "P4", "P4b", "P5", "P6", "P7", "P8", "P22", "P22", "P11", "P12", "stopstart", "reads", "P33", "P33", "P35"}

func safetyProfile(name string) sim.Profile {
	return sim.Profile{
		Name: name, Voters: [2]int{1, 5}, Phases: [2]int{2, 7}, Patterns: safetyPatterns,
		Writes: true, Crashes: true, Stops: true, EpilogueET: 8, Prologue: true,
		Snapshots: "both", // compaction and snapshot transfer are part of ordinary operation: a lagging or diverged node may be repaired through InstallSnapshot
	}
}

// C01: state machine safety.
var propC01 = &simProp{
	ID:      "C01",
	Profile: safetyProfile("C01"),
	Owns:    []string{"C01"},
	Rule: "generated cluster schedule (1-5 voters, static membership, pattern-biased actions: partial replication, leader isolation with held/dropped messages, late replies, duplicates, crashes at arbitrary instants and at storage boundaries, restarts, concurrent submits) with the apply-table / committed-prefix / apply-order oracles after every step; " +
		"non-trivial = at least two nodes applied a common index and the history contains a new leader term after the first commit or a restart; distinct by hash of the executed script",
	Classify: func(res *sim.Result, f *histFacts) (bool, []string) {
		var l []string
		if f.LeaderAfterCmt {
			l = append(l, "leader-change-after-commit")
		}
		if f.Restarts > 0 {
			l = append(l, "restart")
		}
		if f.ImageRestarts > 0 {
			l = append(l, "restart-from-crash-image")
		}
		if f.StorageCrashes > 0 {
			l = append(l, "storage-boundary-crash")
		}
		if f.Dups > 0 {
			l = append(l, "duplicate-delivery")
		}
		if f.CommonApplied {
			l = append(l, "common-applied-index")
		}
		return f.CommonApplied && (f.LeaderAfterCmt || f.Restarts > 0), l
	},
}

func TestC01(t *testing.T)       { runSimProp(t, propC01) }
func TestCorpusC01(t *testing.T) { runSimCorpus(t, propC01) }
