package props

import (
	"fmt"
	"sort"
	"strings"
	"testing"
	"time"

	"verif/harness/sim"
)

// converged checks the fault-free-suffix postcondition of C15 on a healed
// cluster. It returns "" or a description of what is missing.
func converged(c *sim.Cluster) (string, string) {
	v := c.Observe()
	var leaders []string
	for id, st := range v.Status {
		if st.State == "leader" {
			leaders = append(leaders, id)
		}
	}
	sort.Strings(leaders)
	if len(leaders) != 1 {
		if len(leaders) == 0 {
			// known root cause F10a: a running node whose own latest configuration no longer gives it a vote
			// (an uncommitted removal - or demotion - of itself that it adopted at restart) while another
			// running node still counts it as a voter
			for x, cf := range v.Conf {
				if cf.Members[x] {
					continue
				}
				for y, cy := range v.Conf {
					if y != x && cy.Members[x] && v.Status[x].Applied < cf.Index {
						return "C15/removed-node-with-uncommitted-removal-blocks-election", fmt.Sprintf("no leader: %s runs with configuration %v (entry %d, not applied, gives %s no vote) and does not campaign; %s still needs its vote (configuration %v); status %v", x, cf.Members, cf.Index, x, y, cy.Members, statusLine(v))
					}
				}
			}
		}
		if len(leaders) == 0 {
			// known root cause F29: a vote request is ignored unless the receiver's *own* latest configuration lists
			// both the candidate and the receiver as voters. A receiver whose configuration is behind (it has not
			// received the entry that made the candidate - or itself - a voter, e.g. a node added as a voter while
			// empty) withholds a vote the election needs, and its own candidacy is refused for its shorter log.
			ids := make([]string, 0, len(v.Conf))
			for id := range v.Conf {
				ids = append(ids, id)
			}
			sort.Strings(ids)
			for _, x := range ids {
				cx := v.Conf[x]
				if _, running := v.Status[x]; !running || cx == nil || !cx.Members[x] {
					continue
				}
				for _, y := range ids {
					cy := v.Conf[y]
					if _, running := v.Status[y]; !running || y == x || cy == nil || !cx.Members[y] {
						continue
					}
					if !cy.Members[x] || !cy.Members[y] {
						return "C15/vote-withheld-by-outdated-configuration", fmt.Sprintf("no leader: %s (configuration %v, entry %d) needs the vote of %s, whose own configuration %v (entry %d) does not list both of them as voters, so it ignores the request; status %v", x, cx.Members, cx.Index, y, cy.Members, cy.Index, statusLine(v))
					}
				}
			}
		}
		return "C15/not-exactly-one-leader", fmt.Sprintf("running nodes in leader state: %v; status %v", leaders, statusLine(v))
	}
	l := leaders[0]
	conf := v.Conf[l]
	for id, voter := range conf.Members {
		if st, ok := v.Status[id]; ok && voter && st.Term != v.Status[l].Term {
			return "C15/voters-disagree-on-term", fmt.Sprintf("leader %s is in term %d, running voter %s in term %d", l, v.Status[l].Term, id, st.Term)
		}
	}
	// a fresh write is acknowledged (retried on not-leader as the API documents)
	ok, idx, outcome := false, uint64(0), ""
	for try := 0; try < 3 && !ok; try++ {
		ok, idx, outcome = c.SubmitWait(l, 2*time.Second)
		if !ok {
			if nl := c.Observe().Leader(); nl != "" {
				l = nl
			}
		}
	}
	if !ok {
		return "C15/no-progress", fmt.Sprintf("a write submitted to leader %s was not acknowledged (%s); status %v", l, outcome, statusLine(c.Observe()))
	}
	c.Advance(4 * c.ET())
	v = c.Observe()
	conf = v.Conf[l]
	if conf == nil || v.Status[l].State != "leader" {
		return "C15/not-exactly-one-leader", fmt.Sprintf("%s, which had just acknowledged a write, is no longer leader without any fault; status %v", l, statusLine(v))
	}
	if conf.Index > v.Status[l].Commit {
		return "C15/pending-membership-change", fmt.Sprintf("leader %s holds configuration entry %d but its commit index is %d", l, conf.Index, v.Status[l].Commit)
	}
	want := c.FSMLedger(l)
	for id := range conf.Members {
		if _, running := v.Status[id]; !running || id == l {
			continue
		}
		got := c.FSMLedger(id)
		if !sameLedger(got, want) {
			return "C15/member-did-not-catch-up", fmt.Sprintf("member %s applied %d operations (last index %d), leader %s applied %d (last index %d, write acknowledged at %d); status %v; %s",
				id, len(got), lastIdx(got), l, len(want), lastIdx(want), idx, statusLine(v), stallCycle(c, l, id))
		}
	}
	return "", ""
}

func lastIdx(l []sim.LedgerItem) uint64 {
	if len(l) == 0 {
		return 0
	}
	return l[len(l)-1].Index
}

func sameLedger(a, b []sim.LedgerItem) bool {
	if len(a) != len(b) {
		return false
	}
	for i := range a {
		if a[i] != b[i] {
			return false
		}
	}
	return true
}

func statusLine(v sim.View) string {
	ids := make([]string, 0, len(v.Status))
	for id := range v.Status {
		ids = append(ids, id)
	}
	sort.Strings(ids)
	var sb strings.Builder
	for _, id := range ids {
		s := v.Status[id]
		fmt.Fprintf(&sb, "%s:%s/t%d/c%d/a%d ", id, s.State, s.Term, s.Commit, s.Applied)
	}
	return sb.String()
}

// stallCycle summarises the recent traffic between the leader and a stuck member.
func stallCycle(c *sim.Cluster, leader, member string) string {
	h := c.Rec().History()
	var out []string
	for i := len(h) - 1; i >= 0 && len(out) < 8; i-- {
		e := &h[i]
		if e.Kind == "handled" && e.Msg.Src == leader && e.Msg.Dst == member {
			m := e.Msg
			switch m.Kind {
			case "AE":
				out = append(out, fmt.Sprintf("AE(prev=%d,n=%d,commit=%d)->ok=%v,hint=%d", m.Prev, len(m.Ents), m.Commit, m.Success, m.RIndex))
			case "IS":
				out = append(out, fmt.Sprintf("IS(label=%d,off=%d,len=%d,done=%v)->written=%d", m.Prev, m.Offset, m.Len, m.Done, m.Written))
			}
		}
	}
	return "recent leader->member traffic (newest first): " + strings.Join(out, "; ")
}

func crashFacts(res *sim.Result) (storageCrashes, imageRestarts int, ops map[string]int) {
	ops = map[string]int{}
	for i := range res.History {
		e := &res.History[i]
		if e.Kind != "fault" {
			continue
		}
		if e.Fault.What == "crash" && e.Storage != nil && e.Storage.Op != "" {
			storageCrashes++
			when := "before"
			if strings.HasPrefix(e.Fault.Arg, "after") {
				when = "after"
			}
			ops["crash-"+when+":"+e.Storage.Op+"@"+e.Storage.Ctx]++
		}
		if e.Fault.What == "start" && e.Inc > 1 && e.Fault.Err == "" && e.Fault.Image {
			imageRestarts++
		}
	}
	return
}

// C14: a node crashed between any two storage writes restarts and rejoins safely.
var propC14 = &simProp{
	ID: "C14",
	Profile: sim.Profile{
		Name: "C14", Voters: [2]int{1, 5}, Phases: [2]int{2, 7},
		Patterns: []string{"P6", "P6", "P6", "P6", "P7", "P7", "P26", "P26", "P33", "free", "free", "P11", "P1", "P12", "P4b"},
		Writes:   true, Crashes: true, Stops: true, Snapshots: "both", BigPayload: true, EpilogueET: 12, Prologue: true,
	},
	Owns: []string{"C14", "C01", "C02", "C06", "C07"},
	Rule: "generated cluster schedule with snapshots (armed / threshold, lagging followers so that log, term/vote and snapshot storage are all exercised) and, for generated nodes, a crash immediately before or after the k-th storage operation from now (k drawn; log append/truncate/compact/discard, term/vote write, snapshot create/write/close/discard), restart over the directory image taken at that instant; oracle: NewRaft+Start over the image succeed, the process does not abort (FATAL / panic are seen by the driver), the safety monitors of C01/C02/C06/C07 stay green, and in the fault-free suffix every restarted node reaches the leader's applied sequence; " +
		"non-trivial = at least one crash fell on a storage-operation boundary and the node was restarted from that image; distinct by script hash",
	Hooks: func() sim.Hooks {
		return sim.Hooks{
			Oracles: func() []sim.Oracle { return []sim.Oracle{sim.NewSafety()} },
			Epilogue: func(c *sim.Cluster, g *sim.Gen) {
				for _, e := range c.StartErrors {
					c.AddViolation(sim.Violation{Property: "C14", Signature: "C14/restart-failed", Msg: e})
				}
				if sig, why := converged(c); sig != "" {
					// bounded liveness is C15's business; for C14 only "the restarted node catches up"
					if sig == "C15/member-did-not-catch-up" {
						c.Advance(40 * c.ET())
						if sig2, why2 := converged(c); sig2 == "C15/member-did-not-catch-up" {
							c.AddViolation(sim.Violation{Property: "C14", Signature: "C14/restarted-node-did-not-catch-up", Msg: why2})
						}
					} else {
						c.Label("epilogue:" + sig)
						_ = why
					}
				}
			},
		}
	},
	Classify: func(res *sim.Result, f *histFacts) (bool, []string) {
		sc, ir, ops := crashFacts(res)
		var l []string
		for k := range ops {
			l = append(l, k)
		}
		if f.Snapshots > 0 {
			l = append(l, "local-snapshot")
		}
		if f.Installs > 0 {
			l = append(l, "installed-snapshot")
		}
		for k, n := range res.Labels {
			if strings.HasPrefix(k, "epilogue:") && n > 0 {
				l = append(l, k)
			}
		}
		return sc > 0 && ir > 0, l
	},
}

func TestC14(t *testing.T)       { runSimProp(t, propC14) }
func TestCorpusC14(t *testing.T) { runSimCorpus(t, propC14) }

// C15: once faults stop - one leader, progress, every member catches up.
var propC15 = &simProp{
	ID: "C15",
	Profile: sim.Profile{
		Name: "C15", Voters: [2]int{1, 5}, NonVoters: [2]int{0, 1}, Phases: [2]int{1, 6},
		Patterns: []string{"P1", "P2", "P3", "P4", "P4b", "P5", "P6", "P7", "P7", "P8", "P11", "P12", "free", "free", "stopstart", "P10", "P26", "P25", "P22", "P32", "P32"},
		Writes:   true, Crashes: true, Stops: true, Snapshots: "both", BigPayload: true, Membership: true, EpilogueET: 40, Prologue: true, MinorityDown: true,
		MaxDelayUs: []int{400, 2000, 5000},
	},
	Owns: []string{"C15"},
	Rule: "a prefix drawn from the fault generators of C01/C09/C10/C14 (divergent tails, stale terms, half-transferred snapshots, restarted nodes, membership requests, payloads below and above the chunk size), then: heal, restart every stopped node, prompt network (delay <= 5 ms), no further faults; after 40 election timeouts of virtual time exactly one running node is leader and all running voters share its term, a fresh write is acknowledged, no configuration entry is pending at the leader and every running member has the leader's applied sequence; on a miss the suffix is extended by another 160 election timeouts before anything is reported (bounded liveness, not 'eventually'); " +
		"non-trivial = at the start of the suffix some running member needed log repair or a snapshot, or no leader existed; distinct by script hash",
	Hooks: func() sim.Hooks {
		return sim.Hooks{
			Oracles: func() []sim.Oracle { return []sim.Oracle{sim.NewSafety()} },
			Epilogue: func(c *sim.Cluster, g *sim.Gen) {
				sig, why := converged(c)
				if sig == "" {
					return
				}
				c.Label("first-window-miss:" + sig)
				c.Advance(160 * c.ET())
				if sig2, why2 := converged(c); sig2 != "" {
					c.AddViolation(sim.Violation{Property: "C15", Signature: sig2, Msg: why2 + " (after 40 + 160 election timeouts without faults; first miss: " + sig + ")"})
				}
				_ = why
			},
		}
	},
	Classify: func(res *sim.Result, f *histFacts) (bool, []string) {
		// state at the start of the suffix = at the epilogue's heal action
		status := map[string]sim.StatusInfo{}
		needRepair, noLeader := false, true
		for i := range res.History {
			e := &res.History[i]
			if e.Kind == "status" {
				status[e.Node] = *e.Status
			}
			if e.Kind == "fault" && (e.Fault.What == "crash" || e.Fault.What == "stopped") {
				delete(status, e.Node)
			}
			if e.Kind == "action" && e.Action.Op == "heal" && e.Action.Pat == "epilogue" {
				var maxApplied uint64
				for _, s := range status {
					if s.Applied > maxApplied {
						maxApplied = s.Applied
					}
					if s.State == "leader" {
						noLeader = false
					}
				}
				for _, s := range status {
					if s.Applied < maxApplied {
						needRepair = true
					}
				}
				break
			}
		}
		var l []string
		if needRepair {
			l = append(l, "member-behind-at-suffix-start")
		}
		if noLeader {
			l = append(l, "no-leader-at-suffix-start")
		}
		if f.Installs > 0 {
			l = append(l, "installed-snapshot")
		}
		if f.MemberReqs > 0 {
			l = append(l, "membership-requests")
		}
		for k, n := range res.Labels {
			if strings.HasPrefix(k, "first-window-miss:") && n > 0 {
				l = append(l, k)
			}
		}
		return needRepair || noLeader, l
	},
}

func TestC15(t *testing.T)       { runSimProp(t, propC15) }
func TestCorpusC15(t *testing.T) { runSimCorpus(t, propC15) }
