package props

import (
	"strings"
	"testing"

	"verif/harness/sim"
)

// C18: the public API is total - no panic, abort or hang, and futures always resolve.
var propC18 = &simProp{
	ID: "C18",
	Profile: sim.Profile{
		Name: "C18", Voters: [2]int{1, 4}, NonVoters: [2]int{0, 1}, Phases: [2]int{2, 6},
		Patterns: []string{"P18", "P18", "P18", "P18", "free", "P3", "P4b", "P10", "P7", "P1"},
		Writes:   true, LinReads: true, LeaseReads: true, Crashes: true, Stops: true, Membership: true, Snapshots: "both", EpilogueET: 8, Prologue: true,
	},
	Owns: []string{"C18"},
	Rule: "generated cluster schedule interleaved with raw public-API call sequences on nodes in every state (unstarted, follower, pre-candidate, candidate, leader, shutdown, stopping): Start / Restart / Stop on the same instance in any order and multiplicity, Bootstrap (valid, missing self, wrong address, repeated), NewRaft with valid and invalid options and addresses, SubmitOperation of every type incl. an invalid type value with nil/empty/small/1 MiB payloads and zero/negative/small/large timeouts, AddServer / RemoveServer (existing, unknown, self, empty id), Status, Configuration and rendering of every returned value and of every reachable State; oracle: no call panics (process death by a goroutine panic or an internal fatal error is seen by the driver), no synchronous call takes virtual time beyond its bound, every future's Await returns within its timeout and returns the same result when called again, a membership change that is observed committed while its submitter is still leader of the same term (before the future's timeout) resolves the future successfully, every node can be stopped at the end; " +
		"non-trivial = the sequence contains an ill-ordered lifecycle call (Start/Restart/Stop/Bootstrap on an instance in the 'wrong' state) and API calls were made in at least three distinct node states; distinct by script hash",
	Classify: func(res *sim.Result, f *histFacts) (bool, []string) {
		states := map[string]bool{}
		illOrdered := false
		var l []string
		seen := map[string]bool{}
		for i := range res.History {
			e := &res.History[i]
			if e.Kind != "api" {
				continue
			}
			a := e.Api
			states[a.State] = true
			k := "call:" + strings.Split(a.Call, "(")[0]
			if !seen[k] {
				seen[k] = true
				l = append(l, k)
			}
			switch a.Call {
			case "start", "restart":
				if a.State != "unstarted" && a.State != "shutdown" {
					illOrdered = true
				}
				if a.Call == "start" && a.State == "shutdown" {
					illOrdered = true
					if !seen["start-after-stop"] {
						seen["start-after-stop"] = true
						l = append(l, "start-after-stop")
					}
				}
			case "Stop":
				if a.State == "unstarted" || a.State == "shutdown" {
					illOrdered = true
				}
			case "Bootstrap":
				if a.State != "unstarted" {
					illOrdered = true
				}
			}
		}
		for s := range states {
			l = append(l, "state:"+s)
		}
		if illOrdered {
			l = append(l, "ill-ordered-lifecycle-call")
		}
		return illOrdered && len(states) >= 3, l
	},
}

func TestC18(t *testing.T)       { runSimProp(t, propC18) }
func TestCorpusC18(t *testing.T) { runSimCorpus(t, propC18) }
