package props

import (
	"testing"

	"verif/harness/sim"
)

// C17: lease-based reads are never stale while the timing assumption holds
// (lease duration + maximum message delay < election timeout, perfect clocks).
var propC17 = &simProp{
	ID: "C17",
	Profile: sim.Profile{
		Name: "C17", Voters: [2]int{1, 5}, NonVoters: [2]int{0, 2}, Phases: [2]int{2, 6},
		Patterns: []string{"P2", "P2", "P9", "P9", "P13", "P13", "P13", "P10", "P10", "P21", "P21", "P25", "P25", "P36", "P36", "P31", "P31", "reads", "reads", "reads", "free", "free", "P1", "P3", "P4", "stopstart", "P11"},
		Writes:   true, LeaseReads: true, Crashes: true, Stops: true, EpilogueET: 6, Prologue: true, FSMDelays: true, Membership: true, BoundedNet: true,
		Timeouts: []int{100, 500, 1000},
		// (ET ms, LD ms, max one-way delay us) with LD + delay < ET
		Combos: [][3]int{{300, 100, 400}, {300, 100, 20000}, {300, 100, 100000}, {300, 100, 190000}, {300, 250, 400}, {300, 250, 40000}, {150, 50, 400}, {150, 50, 90000}, {300, 50, 200000}},
	},
	Owns: []string{"C17"},
	Rule: "generated cluster schedule with a bounded network (every message is delivered within a drawn bound D or lost, never held; LD + D < ET for the drawn (ET, LD, D)), perfect virtual clocks, partitions/leader changes/crashes at any instant, lease-based reads and writes from several clients at any node, with and without non-voters; oracle: a successful lease-based read reflects every write acknowledged before its invocation, and a lease-based read is only served if a voting member answered the serving node within the preceding lease duration; " +
		"non-trivial = a lease-based read was attempted at a node in leader state while another node already had a higher term, or at a leader partitioned with non-voters only; distinct by script hash",
	Classify: func(res *sim.Result, f *histFacts) (bool, []string) {
		stale, pocket, acked, ok := readFacts(res, "leaseread")
		var l []string
		if stale {
			l = append(l, "lease-read-at-deposed-leader")
		}
		if acked {
			l = append(l, "lease-read-at-deposed-leader-after-ack-elsewhere")
		}
		if pocket {
			l = append(l, "leader-with-non-voters-only")
		}
		if ok > 0 {
			l = append(l, "successful-lease-read")
		}
		rejected := 0
		for i := range res.History {
			e := &res.History[i]
			if e.Kind == "return" && e.Client.Type == "leaseread" && e.Client.Outcome == "invalidlease" {
				rejected++
			}
		}
		if rejected > 0 {
			l = append(l, "lease-read-rejected-invalid-lease")
		}
		return stale || (pocket && f.Reads > 0), l
	},
}

func TestC17(t *testing.T)       { runSimProp(t, propC17) }
func TestCorpusC17(t *testing.T) { runSimCorpus(t, propC17) }
