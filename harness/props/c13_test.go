package props

import (
	"encoding/json"
	"errors"
	"fmt"
	"os"
	"testing"

	"github.com/jmsadair/raft"
	"pgregory.net/rapid"

	"verif/harness/stats"
	"verif/harness/store"
)

// C13: term/vote storage and snapshot storage are atomic and always reopenable.

const c13Rule = "sequence of SetState (votes incl. empty, non-ASCII, long) / NewSnapshotFile + 0-5 writes (0 B .. 3 chunks in total) + Close|Discard / SnapshotFile reads / reopen, 0..40 snapshots per directory, one writer at a time; every crash image of every call (temp file created / partially written / before and after rename; temp snapshot directory empty / with data file / with partial metadata / with partial data / partially removed) is opened with NewStateStorage, NewSnapshotStorage, NewLog and NewRaft on the first attempt and compared with the model; the sequence may continue from any image; " +
	"non-trivial = the sequence continued from an image strictly inside a call (temporary state file or non-empty temporary snapshot directory present) ; distinct by script hash"

func genSSOp(t *rapid.T, c *store.SSCase, openWriter *bool, written *int, snaps *int, maxSnaps int) store.SSOp {
	op := store.SSOp{CrashAt: -1}
	kinds := []string{"setstate", "setstate", "snap_read", "reopen"}
	if *openWriter {
		kinds = append(kinds, "snap_write", "snap_write", "snap_write", "snap_close", "snap_close", "snap_discard")
	} else if *snaps < maxSnaps {
		kinds = append(kinds, "snap_new", "snap_new", "snap_new", "snap_new")
		if maxSnaps-*snaps >= 8 {
			kinds = append(kinds, "snap_bulk")
		}
	}
	op.Kind = rapid.SampledFrom(kinds).Draw(t, "kind")
	switch op.Kind {
	case "setstate":
		op.Term = rapid.SampledFrom([]uint64{0, 1, 2, 3, 1 << 32, ^uint64(0)}).Draw(t, "term")
		op.Vote = rapid.SampledFrom([]string{"", "n1", "node-2", "nœud-3-é", "日本語ノード", string(make([]byte, 300)), "a\x00b"}).Draw(t, "vote")
	case "snap_new":
		op.Index = uint64(*snaps*3 + rapid.IntRange(1, 3).Draw(t, "di"))
		op.Term = uint64(1 + *snaps/2)
		op.Conf = rapid.SampledFrom(validConfs()).Draw(t, "conf")
		*openWriter = true
		*written = 0
		*snaps++
	case "snap_bulk":
		op.Len = rapid.IntRange(6, maxSnaps-*snaps).Draw(t, "bulk")
		op.Index = uint64(*snaps*3 + 1)
		op.Term = uint64(1 + *snaps/2)
		op.Conf = rapid.SampledFrom(validConfs()).Draw(t, "conf")
		op.Seed = rapid.IntRange(0, 250).Draw(t, "seed")
		*snaps += op.Len
	case "snap_write":
		op.Len = rapid.SampledFrom([]int{0, 1, 7, 100, 4096, 32*1024 - 1, 32 * 1024, 32*1024 + 1, 50000}).Draw(t, "len")
		if *written+op.Len > 3*32*1024+10 {
			op.Len = 1
		}
		op.Seed = rapid.IntRange(0, 250).Draw(t, "seed")
		*written += op.Len
	case "snap_close", "snap_discard", "reopen":
		*openWriter = false
	}
	if op.Kind != "reopen" && op.Kind != "snap_read" && op.Kind != "snap_bulk" && rapid.IntRange(0, 3).Draw(t, "crash") == 0 {
		op.CrashAt = rapid.IntRange(0, 5000).Draw(t, "crashAt")
		*openWriter = false
	}
	return op
}

var confCache [][]byte

// validConfs are encoded configurations as the callers of NewSnapshotFile pass them.
func validConfs() [][]byte {
	if confCache != nil {
		return confCache
	}
	tr, err := raft.NewTransport("127.0.0.1:0")
	if err != nil {
		panic(err)
	}
	confCache = [][]byte{nil, {}}
	for _, n := range []int{1, 3, 7} {
		cf := &raft.Configuration{Members: map[string]string{}, IsVoter: map[string]bool{}, Index: uint64(n)}
		for i := 0; i < n; i++ {
			id := fmt.Sprintf("nœud-%d", i)
			cf.Members[id] = fmt.Sprintf("127.0.0.1:%d", 8000+i)
			cf.IsVoter[id] = i%3 != 2
		}
		b, err := tr.EncodeConfiguration(cf)
		if err != nil {
			panic(err)
		}
		confCache = append(confCache, b)
	}
	return confCache
}

func runSSScript(base string, script store.SSScript, allCuts bool, next func(c *store.SSCase) (store.SSOp, bool)) (*store.SSCase, store.SSScript, error) {
	c, err := store.NewSSCase(base)
	if err != nil {
		return nil, script, err
	}
	defer c.Close()
	c.AllCuts = allCuts
	var executed store.SSScript
	i := 0
	for {
		var op store.SSOp
		if next != nil {
			var ok bool
			op, ok = next(c)
			if !ok {
				break
			}
		} else {
			if i >= len(script.Ops) {
				break
			}
			op = script.Ops[i]
		}
		i++
		executed.Ops = append(executed.Ops, op)
		if err := c.Step(op); err != nil {
			return c, executed, err
		}
	}
	return c, executed, nil
}

func c13Outcome(t fataler, c *store.SSCase, script store.SSScript, err error, file string) (string, string) {
	col := stats.For("C13")
	sig, detail := "", ""
	if err != nil {
		var v *store.Violation
		var mm *store.ModelMismatch
		switch {
		case errors.As(err, &v):
			sig, detail = v.Signature, v.Msg
		case errors.As(err, &mm):
			col.Discard("model-mismatch")
			col.Note(mm.Error())
			fmt.Printf("MODEL-MISMATCH property=C13 %s\n", mm.Msg)
		default:
			t.Fatalf("harness error: %v", err)
		}
	}
	if c != nil {
		col.Count("images", int64(c.Images))
		col.Count("images_inside_op", int64(c.InsideImages))
		var labels []string
		for l, n := range c.Labels {
			for i := 0; i < n; i++ {
				labels = append(labels, l)
			}
		}
		if len(c.Closed) >= 2 {
			labels = append(labels, "case:two-or-more-closed-snapshots")
		}
		if len(c.Closed) > 12 {
			labels = append(labels, "case:more-than-12-closed-snapshots")
		}
		b, _ := json.Marshal(script)
		col.Case(c.NonTrivial, stats.Hash64(string(b)), labels, func() any {
			var ops []string
			for _, o := range script.Ops {
				d := o.Kind
				switch o.Kind {
				case "setstate":
					d += fmt.Sprintf("(%d,%q)", o.Term, truncStr(o.Vote, 12))
				case "snap_new":
					d += fmt.Sprintf("(%d,%d,conf %dB)", o.Index, o.Term, len(o.Conf))
				case "snap_write":
					d += fmt.Sprintf("(%dB)", o.Len)
				}
				if o.CrashAt >= 0 {
					d += fmt.Sprintf(" crash@%d", o.CrashAt)
				}
				ops = append(ops, d)
			}
			return map[string]any{"ops": ops, "images_checked": c.Images, "closed_snapshots": len(c.Closed)}
		})
	}
	if sig != "" && file == "" {
		violation(t, "C13", "E-STORE/state+snapshot", sig, detail, len(script.Ops), script, nil)
	}
	return sig, detail
}

func truncStr(s string, n int) string {
	if len(s) > n {
		return s[:n] + "…"
	}
	return s
}

func TestC13(t *testing.T) {
	base := scratchRoot(t)
	col := stats.For("C13")
	col.Rule = c13Rule
	n := 0
	rapid.Check(t, func(rt *rapid.T) {
		n++
		dir := fmt.Sprintf("%s/c%d", base, n)
		defer os.RemoveAll(dir)
		steps := rapid.IntRange(1, 60).Draw(rt, "steps")
		maxSnaps := rapid.SampledFrom([]int{2, 5, 14, 40}).Draw(rt, "maxSnaps")
		if maxSnaps >= 14 {
			steps = rapid.IntRange(10, 80).Draw(rt, "moreSteps")
		}
		all := thorough() && steps <= 20
		k := 0
		open, written, snaps := false, 0, 0
		c, script, err := runSSScript(dir, store.SSScript{}, all, func(c *store.SSCase) (store.SSOp, bool) {
			if k >= steps {
				return store.SSOp{}, false
			}
			k++
			return genSSOp(rt, c, &open, &written, &snaps, maxSnaps), true
		})
		c13Outcome(rt, c, script, err, "")
		if n%100 == 0 {
			col.Flush()
		}
	})
}

func TestCorpusC13(t *testing.T) {
	base := scratchRoot(t)
	files := corpusFiles("C13")
	if f := os.Getenv("VERIF_REPLAY"); f != "" {
		files = []string{f}
	}
	for i, f := range files {
		r, err := loadReplay(f)
		if err != nil {
			t.Fatalf("%s: %v", f, err)
		}
		var sk syskillReplay
		if err := json.Unmarshal(r.Script, &sk); err == nil && sk.Kind == "ss" {
			// a failure of the syscall-level crash sweep: same script, same kill point
			if syskillUnavailable("C13") {
				continue
			}
			sig, detail, _, _, _ := runSyskillSS(t, fmt.Sprintf("%s/r%d", base, i), sk.SS, 0, 0, sk.Point)
			corpusResult(t, "C13", f, sig, detail)
			continue
		}
		var script store.SSScript
		if err := json.Unmarshal(r.Script, &script); err != nil {
			t.Fatalf("%s: %v", f, err)
		}
		c, ex, err := runSSScript(fmt.Sprintf("%s/r%d", base, i), script, true, nil)
		sig, detail := c13Outcome(t, c, ex, err, f)
		corpusResult(t, "C13", f, sig, detail)
	}
}
