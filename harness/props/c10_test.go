package props

import (
	"testing"

	"verif/harness/sim"
)

// overlapFacts finds state-machine calls that overlapped in time on one node.
func overlapFacts(res *sim.Result) (snapOverlapApply, restoreOverlapApply, restartFromSnapReplay bool, snaps, installs int) {
	applying := map[string]int{}  // node/inc -> applies in flight
	snapping := map[string]bool{} // node/inc -> Snapshot() in flight
	restoring := map[string]bool{}
	restored := map[int]bool{} // fsm restored at construction
	for i := range res.History {
		e := &res.History[i]
		k := e.Node
		switch e.Kind {
		case "apply":
			if e.Apply.Read {
				continue
			}
			if e.Apply.Begin {
				applying[k]++
				if snapping[k] {
					snapOverlapApply = true
				}
				if restoring[k] {
					restoreOverlapApply = true
				}
			} else {
				applying[k]--
				if restored[e.Apply.FSM] {
					restartFromSnapReplay = true
				}
			}
		case "fsmsnap":
			if e.Restore.Begin {
				snapping[k] = true
				if applying[k] > 0 {
					snapOverlapApply = true
				}
			} else {
				snapping[k] = false
			}
		case "restore":
			if e.Restore.Begin {
				restoring[k] = true
				if applying[k] > 0 {
					restoreOverlapApply = true
				}
			} else {
				restoring[k] = false
				restored[e.Restore.FSM] = true
			}
		case "fault":
			if e.Fault.What == "start" || e.Fault.What == "crash" {
				applying[k] = 0
				snapping[k] = false
				restoring[k] = false
			}
		case "snapfile":
			if e.Snap.Origin == "local" {
				snaps++
			} else {
				installs++
			}
		}
	}
	return
}

var snapPatterns = []string{"P7", "P7", "P7", "free", "free", "P6", "P11", "P1", "reads", "stopstart", "P12", "P3", "P26", "P27", "P27", "P33"}

// C10: snapshots are exact.
var propC10 = &simProp{
	ID: "C10",
	Profile: sim.Profile{
		Name: "C10", Voters: [2]int{1, 5}, Phases: [2]int{2, 7}, Patterns: snapPatterns,
		Writes: true, Crashes: true, Stops: true, Snapshots: "both", FSMDelays: true, BigPayload: true, EpilogueET: 10, Prologue: true,
	},
	Owns: []string{"C10"},
	Rule: "generated cluster schedule with snapshots armed by the schedule or by a log-size threshold on any node, slow state-machine calls (generated delays before/after the mutation in Apply, before/after the capture in Snapshot, in Restore), commits continuing during snapshots, lagging followers that need InstallSnapshot, crashes right after a snapshot file became visible, payloads 0 B .. >3 chunks; every snapshot file is intercepted on Close and its decoded content compared with the authoritative applied order up to its label (none later, none missing), label term and configuration checked, restores and later applications checked for duplicates and gaps; " +
		"non-trivial = a Snapshot() or Restore() call overlapped an Apply on the same node, or a node restarted from a snapshot and then replayed at least one entry; distinct by script hash",
	Classify: func(res *sim.Result, f *histFacts) (bool, []string) {
		so, ro, rr, snaps, inst := overlapFacts(res)
		var l []string
		if so {
			l = append(l, "snapshot-overlapped-apply")
		}
		if ro {
			l = append(l, "restore-overlapped-apply")
		}
		if rr {
			l = append(l, "restored-then-applied")
		}
		if snaps > 0 {
			l = append(l, "local-snapshot")
		}
		if inst > 0 {
			l = append(l, "installed-snapshot")
		}
		if res.Script.Header.Padding > 32*1024 {
			l = append(l, "multi-chunk-payload")
		}
		stats_count("C10", "local_snapshots", snaps)
		stats_count("C10", "installed_snapshots", inst)
		return so || ro || rr, l
	},
}

func TestC10(t *testing.T)       { runSimProp(t, propC10) }
func TestCorpusC10(t *testing.T) { runSimCorpus(t, propC10) }
