package props

import (
	"testing"

	"verif/harness/sim"
)

// C16: prevote / stickiness - isolated or removed nodes cannot depose a healthy leader.
var propC16 = &simProp{
	ID: "C16",
	Profile: sim.Profile{
		Name: "C16", Voters: [2]int{3, 5}, NonVoters: [2]int{0, 1}, Phases: [2]int{1, 4},
		Patterns: []string{"P16"}, Writes: true, Crashes: true, Stops: true, EpilogueET: 6, Prologue: true,
		MaxDelayUs: []int{400, 2000, 5000},
	},
	Owns: []string{"C16"},
	Rule: "3-5 voters (+0-1 non-voter, +0-1 voter removed through RemoveServer that keeps running); prologue until a leader L is established and every node follows it in its term (T0); then only nodes outside a drawn majority of L (a strict minority of voters, the non-voter, the removed node) are subjected to generated behaviour: symmetric and one-directional isolation (messages lost or held and released later) for durations from 0 to 20 election timeouts, rejoin at any instant, crash/stop and restart, duplicated and late messages; links inside L's majority stay prompt (<= 5 ms); oracle: from T0 to the end L reports leader state in the same term and every majority node reports that term; " +
		"non-trivial = a misbehaving node was cut off for at least one election timeout and rejoined, or was restarted, or was a removed node, inside the window; distinct by script hash",
	Hooks: func() sim.Hooks {
		return sim.Hooks{Oracles: func() []sim.Oracle { return []sim.Oracle{sim.NewSafety(), sim.NewSticky()} }}
	},
	Classify: func(res *sim.Result, f *histFacts) (bool, []string) {
		marked := false
		isolatedAt := map[string]int64{}
		rejoinAfterET, restarted, removed, oneWay, held := false, false, false, false, false
		et := int64(res.Script.Header.ET) * 1e6
		for i := range res.History {
			e := &res.History[i]
			if e.Kind != "action" {
				if marked && e.Kind == "fault" && e.Fault.What == "start" && e.Inc > 1 {
					restarted = true
				}
				continue
			}
			a := e.Action
			switch a.Op {
			case "mark":
				marked = true
			case "remove":
				if a.Pat == "P16" {
					removed = true
				}
			case "isolate":
				if marked {
					if _, ok := isolatedAt[a.Node]; !ok {
						isolatedAt[a.Node] = e.VT
					}
					if a.Dir == "in" || a.Dir == "out" {
						oneWay = true
					}
					if a.Mode == "held" {
						held = true
					}
				}
			case "reconnect":
				if t0, ok := isolatedAt[a.Node]; ok && marked {
					if e.VT-t0 >= et {
						rejoinAfterET = true
					}
					delete(isolatedAt, a.Node)
				}
			}
		}
		var l []string
		if marked {
			l = append(l, "T0-established")
		}
		if rejoinAfterET {
			l = append(l, "rejoin-after-election-timeout")
		}
		if restarted {
			l = append(l, "minority-restart")
		}
		if removed {
			l = append(l, "removed-node-running")
		}
		if oneWay {
			l = append(l, "one-directional-isolation")
		}
		if held {
			l = append(l, "late-messages-from-minority")
		}
		if res.Script.Header.NonVoters > 0 {
			l = append(l, "with-non-voter")
		}
		return marked && (rejoinAfterET || restarted || removed), l
	},
}

func TestC16(t *testing.T)       { runSimProp(t, propC16) }
func TestCorpusC16(t *testing.T) { runSimCorpus(t, propC16) }
