package props

import (
	"testing"

	"verif/harness/sim"
)

// C09: membership changes preserve safety; non-voters never count.
var propC09 = &simProp{
	ID: "C09",
	Profile: sim.Profile{
		Name: "C09", Voters: [2]int{1, 4}, NonVoters: [2]int{0, 1}, Phases: [2]int{2, 7},
		Patterns: []string{"P10", "P10", "P10", "P10", "P24", "P24", "P28", "P28", "P21", "free", "free", "P1", "P2", "P3", "P4b", "P6", "P11", "P12", "P9", "stopstart"},
		Writes:   true, Crashes: true, Stops: true, Membership: true, MemberRetry: true, DiskCheck: true, EpilogueET: 10, Prologue: true, Snapshots: "both",
	},
	Owns: []string{"C09", "C01", "C02", "C07"},
	Rule: "generated cluster schedule starting from 1-4 voters with add-server (non-voter and voter), promote and remove-server (including the leader) requests submitted to any node, back-to-back, retried and around leader changes; new nodes started empty; partitions (hold/drop), crashes at arbitrary instants and storage boundaries, restarts; oracles: C01 apply table and committed-prefix agreement (configuration entries compared by content), C02 leader uniqueness, C07 leader completeness, plus: every leader was elected by a strict majority of the voters of a configuration it reported (non-voters never count), every first application / acknowledgement is on disk at a strict majority of the voters of a configuration in use, a successful membership future reports a committed configuration containing the change; " +
		"non-trivial = at least two membership requests with a fault between them, and an election or a commit took place while two running nodes reported different configurations; distinct by script hash",
	Classify: func(res *sim.Result, f *histFacts) (bool, []string) {
		confs := map[string]string{}
		differ := false
		reqs, faultBetween := 0, false
		faultSince := false
		activityWhileDiffer := false
		for i := range res.History {
			e := &res.History[i]
			switch e.Kind {
			case "conf":
				confs[e.Node] = confKey(e.Conf)
				differ = false
				for _, a := range confs {
					for _, b := range confs {
						if a != b {
							differ = true
						}
					}
				}
			case "invoke":
				if e.Client.Type == "add" || e.Client.Type == "remove" {
					reqs++
					if reqs >= 2 && faultSince {
						faultBetween = true
					}
					faultSince = false
				}
			case "fault":
				if e.Fault.What == "crash" || e.Fault.What == "stop" {
					faultSince = true
					delete(confs, e.Node)
				}
			case "action":
				switch e.Action.Op {
				case "isolate", "partition", "link":
					faultSince = true
				}
			case "status":
				if differ && (e.Status.State == "leader" || e.Status.Commit > 0) {
					activityWhileDiffer = true
				}
			}
		}
		var l []string
		if faultBetween {
			l = append(l, "two-requests-with-fault-between")
		}
		if activityWhileDiffer {
			l = append(l, "activity-while-configurations-differ")
		}
		if f.MemberOK > 0 {
			l = append(l, "membership-future-succeeded")
		}
		removedLeader := false
		for i := range res.History {
			e := &res.History[i]
			if e.Kind == "invoke" && e.Client.Type == "remove" && e.Client.Arg == e.Client.Target {
				removedLeader = true
			}
		}
		if removedLeader {
			l = append(l, "remove-submitted-to-the-node-itself")
		}
		return faultBetween && activityWhileDiffer, l
	},
}

func confKey(c *sim.ConfInfo) string {
	s := ""
	for _, id := range []string{"n1", "n2", "n3", "n4", "n5", "n6", "n7"} {
		if v, ok := c.Members[id]; ok {
			if v {
				s += id + "+"
			} else {
				s += id + "-"
			}
		}
	}
	return s
}

func TestC09(t *testing.T)       { runSimProp(t, propC09) }
func TestCorpusC09(t *testing.T) { runSimCorpus(t, propC09) }
