package props

import (
	"bytes"
	"encoding/json"
	"fmt"
	"io"
	"os"
	"strings"
	"sync"
	"testing"
	"time"

	"github.com/jmsadair/raft"
	"github.com/jmsadair/raft/logging"
	"pgregory.net/rapid"

	"verif/harness/stats"
)

// C19: encodings are lossless - RPCs through the bundled (real gRPC) transport,
// log records, term/vote, configurations and snapshot metadata round-trip.

const c19Rule = "generated AppendEntries / RequestVote / InstallSnapshot requests and responses sent through two bundled transports on loopback (real gRPC): every field over {0, 1, max uint64, random}, ids empty / ASCII / multi-byte UTF-8, 0-5000 entries of all three types with nil / empty / 1 B / large data (single entries and stored log entries up to 3 MiB), snapshot chunks of 0 B - 64 KiB; log entries, (term, vote) pairs, configurations (0-7 members, voters and non-voters) and snapshot metadata written through the storage API and read back by a fresh instance; oracle: received == sent and returned == generated field by field (nil and empty byte slices are equal on the wire; LogEntry.Offset is storage-local); plus an end-to-end transfer of a snapshot of N bytes (below and above the 32 KiB chunk size and the 4 MiB default RPC limit) from a leader to an empty node over the bundled transport; " +
	"non-trivial = the message contains a configuration-type entry, an extreme value (0 / max uint64 / non-ASCII id) or a payload above the chunk size; distinct by hash of the generated value"

type codecPair struct {
	a, b   raft.Transport
	addrB  string
	mu     sync.Mutex
	gotAE  *raft.AppendEntriesRequest
	gotRV  *raft.RequestVoteRequest
	gotIS  *raft.InstallSnapshotRequest
	respAE raft.AppendEntriesResponse
	respRV raft.RequestVoteResponse
	respIS raft.InstallSnapshotResponse
}

func freeAddr(t testing.TB) string { return freeAddrF(t) } // addresses in a loopback block of this process (c20_real_test.go)

func newCodecPair(t testing.TB) *codecPair {
	p := &codecPair{}
	var err error
	addrA := freeAddr(t)
	p.addrB = freeAddr(t)
	if p.a, err = raft.NewTransport(addrA); err != nil {
		t.Fatalf("NewTransport: %v", err)
	}
	if p.b, err = raft.NewTransport(p.addrB); err != nil {
		t.Fatalf("NewTransport: %v", err)
	}
	noAE := func(*raft.AppendEntriesRequest, *raft.AppendEntriesResponse) error { return nil }
	noRV := func(*raft.RequestVoteRequest, *raft.RequestVoteResponse) error { return nil }
	noIS := func(*raft.InstallSnapshotRequest, *raft.InstallSnapshotResponse) error { return nil }
	p.a.RegisterAppendEntriesHandler(noAE)
	p.a.RegisterRequestVoteHandler(noRV)
	p.a.RegsiterInstallSnapshotHandler(noIS)
	p.b.RegisterAppendEntriesHandler(func(req *raft.AppendEntriesRequest, resp *raft.AppendEntriesResponse) error {
		p.mu.Lock()
		defer p.mu.Unlock()
		p.gotAE = req
		*resp = p.respAE
		return nil
	})
	p.b.RegisterRequestVoteHandler(func(req *raft.RequestVoteRequest, resp *raft.RequestVoteResponse) error {
		p.mu.Lock()
		defer p.mu.Unlock()
		p.gotRV = req
		*resp = p.respRV
		return nil
	})
	p.b.RegsiterInstallSnapshotHandler(func(req *raft.InstallSnapshotRequest, resp *raft.InstallSnapshotResponse) error {
		p.mu.Lock()
		defer p.mu.Unlock()
		p.gotIS = req
		*resp = p.respIS
		return nil
	})
	if err := p.a.Run(); err != nil {
		t.Fatalf("Run: %v", err)
	}
	if err := p.b.Run(); err != nil {
		t.Fatalf("Run: %v", err)
	}
	return p
}

func (p *codecPair) close() {
	p.a.Shutdown()
	p.b.Shutdown()
}

var extremeU64 = []uint64{0, 1, 2, 1<<32 - 1, 1 << 32, 1<<63 - 1, 1 << 63, ^uint64(0)}

func genU64(t *rapid.T, label string) uint64 {
	if rapid.IntRange(0, 2).Draw(t, label+"Kind") == 0 {
		return rapid.Uint64().Draw(t, label)
	}
	return rapid.SampledFrom(extremeU64).Draw(t, label)
}

func genID(t *rapid.T, label string) string {
	return rapid.SampledFrom([]string{"", "n1", "node-2", "nœud-3", "ノード", "a b\tc", "x\x00y", string(bytes.Repeat([]byte("z"), 300))}).Draw(t, label)
}

func genData(t *rapid.T, label string) []byte {
	switch rapid.IntRange(0, 5).Draw(t, label+"Kind") {
	case 0:
		return nil
	case 1:
		return []byte{}
	case 2:
		return []byte{rapid.Byte().Draw(t, label+"b")}
	case 3:
		n := rapid.IntRange(2, 100).Draw(t, label+"n")
		return rapid.SliceOfN(rapid.Byte(), n, n).Draw(t, label)
	case 4:
		n := rapid.SampledFrom([]int{1000, 32*1024 - 1, 32 * 1024, 32*1024 + 1, 65536}).Draw(t, label+"n")
		b := make([]byte, n)
		seed := rapid.Byte().Draw(t, label+"s")
		for i := range b {
			b[i] = byte(i)*31 + seed
		}
		return b
	}
	return []byte("op")
}

// genBigData: payloads around and above 1 MiB. The library states no limit on the size of an
// operation; what the bundled transport can replicate is bounded by its 4 MiB message limit.
func genBigData(t *rapid.T, label string) []byte {
	n := rapid.SampledFrom([]int{1<<20 - 64, 1 << 20, 1<<20 + 1, 2<<20 + 7, 3 << 20}).Draw(t, label+"big")
	b := make([]byte, n)
	seed := rapid.Byte().Draw(t, label+"bs")
	for i := range b {
		b[i] = byte(i)*17 + seed
	}
	return b
}

func genConf(t *rapid.T, tr raft.Transport) (raft.Configuration, []byte) {
	n := rapid.IntRange(0, 7).Draw(t, "members")
	cf := raft.Configuration{Members: map[string]string{}, IsVoter: map[string]bool{}, Index: genU64(t, "confIndex")}
	for i := 0; i < n; i++ {
		id := fmt.Sprintf("%s-%d", genID(t, "mid"), i)
		cf.Members[id] = rapid.SampledFrom([]string{"127.0.0.1:8080", "", "höst:1"}).Draw(t, "addr")
		cf.IsVoter[id] = rapid.Bool().Draw(t, "voter")
	}
	b, err := tr.EncodeConfiguration(&cf)
	if err != nil {
		t.Fatalf("EncodeConfiguration: %v", err)
	}
	return cf, b
}

func sameConf(a, b raft.Configuration) bool {
	if a.Index != b.Index || len(a.Members) != len(b.Members) {
		return false
	}
	for id, addr := range a.Members {
		if b.Members[id] != addr || a.IsVoter[id] != b.IsVoter[id] {
			return false
		}
		if _, ok := b.Members[id]; !ok {
			return false
		}
	}
	return true
}

func sameEntries(a, b []*raft.LogEntry) string {
	if len(a) != len(b) {
		return fmt.Sprintf("%d entries, want %d", len(b), len(a))
	}
	for i := range a {
		x, y := a[i], b[i]
		if x.Index != y.Index || x.Term != y.Term || x.EntryType != y.EntryType || !bytes.Equal(x.Data, y.Data) {
			return fmt.Sprintf("entry %d: got (%d,%d,ty%d,%dB) want (%d,%d,ty%d,%dB)", i, y.Index, y.Term, y.EntryType, len(y.Data), x.Index, x.Term, x.EntryType, len(x.Data))
		}
	}
	return ""
}

type c19Case struct {
	Kind   string `json:"kind"`
	Detail any    `json:"detail"`
}

func c19Fail(t fataler, sig, detail string, sample any) {
	violation(t, "C19", "E-CODEC", sig, detail, 1, sample, nil)
}

// oneCodecCase generates and checks one value; returns (kind, nontrivial, hash material).
func oneCodecCase(rt *rapid.T, p *codecPair, dir string) (string, bool, any) {
	kind := rapid.SampledFrom([]string{"AE", "AE", "AE", "RV", "IS", "IS", "log", "state", "conf", "snapmeta"}).Draw(rt, "kind")
	switch kind {
	case "AE":
		req := raft.AppendEntriesRequest{LeaderID: genID(rt, "leader"), Term: genU64(rt, "term"), LeaderCommit: genU64(rt, "commit"), PrevLogIndex: genU64(rt, "prev"), PrevLogTerm: genU64(rt, "prevT")}
		n := rapid.SampledFrom([]int{0, 0, 1, 2, 5, 64, 64, 1000, 1024, 1025, 2049, 5000}).Draw(rt, "entries")
		nt := false
		many := n > 64 // a follower that is far behind is sent everything it misses in one request: small entries, many of them
		for i := 0; i < n; i++ {
			ty := raft.LogEntryType(rapid.IntRange(0, 2).Draw(rt, "ty"))
			var d []byte
			if many {
				nt = true
				d = []byte{byte(i), byte(i >> 8)}
				if ty == raft.ConfigurationEntry {
					ty = raft.OperationEntry
				}
			} else if ty == raft.ConfigurationEntry {
				_, d = genConf(rt, p.a)
				nt = true
			} else if n == 1 && rapid.IntRange(0, 3).Draw(rt, "big") == 0 {
				d = genBigData(rt, "data")
				nt = true
			} else {
				d = genData(rt, "data")
			}
			req.Entries = append(req.Entries, &raft.LogEntry{Index: genU64(rt, "ei"), Term: genU64(rt, "et"), Data: d, EntryType: ty, Offset: int64(i)})
		}
		resp := raft.AppendEntriesResponse{Term: genU64(rt, "rterm"), Success: rapid.Bool().Draw(rt, "ok"), Index: genU64(rt, "rindex")}
		p.mu.Lock()
		p.respAE = resp
		p.gotAE = nil
		p.mu.Unlock()
		got, err := p.a.SendAppendEntries(p.addrB, req)
		sample := map[string]any{"kind": "AE", "leader": req.LeaderID, "term": req.Term, "commit": req.LeaderCommit, "prev": req.PrevLogIndex, "prevt": req.PrevLogTerm, "entries": len(req.Entries), "resp": resp}
		if err != nil {
			c19Fail(rt, "C19/send-error", fmt.Sprintf("SendAppendEntries: %v", err), sample)
		}
		p.mu.Lock()
		r := p.gotAE
		p.mu.Unlock()
		if r == nil {
			c19Fail(rt, "C19/not-delivered", "AppendEntries handler was not called", sample)
		}
		if r.LeaderID != req.LeaderID || r.Term != req.Term || r.LeaderCommit != req.LeaderCommit || r.PrevLogIndex != req.PrevLogIndex || r.PrevLogTerm != req.PrevLogTerm {
			c19Fail(rt, "C19/append-entries-request", fmt.Sprintf("received header %+v, sent %+v", *r, req), sample)
		}
		if d := sameEntries(req.Entries, r.Entries); d != "" {
			c19Fail(rt, "C19/append-entries-request", "entries: "+d, sample)
		}
		if got != resp {
			c19Fail(rt, "C19/append-entries-response", fmt.Sprintf("returned %+v, handler answered %+v", got, resp), sample)
		}
		return kind, nt || req.Term == 0 || req.Term == ^uint64(0) || req.PrevLogIndex == ^uint64(0) || !isASCII(req.LeaderID), sample
	case "RV":
		req := raft.RequestVoteRequest{CandidateID: genID(rt, "cand"), Term: genU64(rt, "term"), LastLogIndex: genU64(rt, "li"), LastLogTerm: genU64(rt, "lt"), Prevote: rapid.Bool().Draw(rt, "prevote")}
		resp := raft.RequestVoteResponse{Term: genU64(rt, "rterm"), VoteGranted: rapid.Bool().Draw(rt, "granted")}
		p.mu.Lock()
		p.respRV = resp
		p.gotRV = nil
		p.mu.Unlock()
		got, err := p.a.SendRequestVote(p.addrB, req)
		sample := map[string]any{"kind": "RV", "req": req, "resp": resp}
		if err != nil {
			c19Fail(rt, "C19/send-error", fmt.Sprintf("SendRequestVote: %v", err), sample)
		}
		p.mu.Lock()
		r := p.gotRV
		p.mu.Unlock()
		if r == nil || *r != req {
			c19Fail(rt, "C19/request-vote-request", fmt.Sprintf("received %+v, sent %+v", r, req), sample)
		}
		if got != resp {
			c19Fail(rt, "C19/request-vote-response", fmt.Sprintf("returned %+v, handler answered %+v", got, resp), sample)
		}
		return kind, req.Term == 0 || req.Term == ^uint64(0) || !isASCII(req.CandidateID), sample
	case "IS":
		_, conf := genConf(rt, p.a)
		req := raft.InstallSnapshotRequest{LeaderID: genID(rt, "leader"), Term: genU64(rt, "term"), LastIncludedIndex: genU64(rt, "lii"), LastIncludedTerm: genU64(rt, "lit"),
			Configuration: conf, Bytes: genData(rt, "bytes"), Offset: int64(genU64(rt, "off") >> 1), Done: rapid.Bool().Draw(rt, "done")}
		resp := raft.InstallSnapshotResponse{Term: genU64(rt, "rterm"), BytesWritten: int64(genU64(rt, "written") >> 1)}
		p.mu.Lock()
		p.respIS = resp
		p.gotIS = nil
		p.mu.Unlock()
		got, err := p.a.SendInstallSnapshot(p.addrB, req)
		sample := map[string]any{"kind": "IS", "leader": req.LeaderID, "term": req.Term, "label": req.LastIncludedIndex, "labelt": req.LastIncludedTerm, "conf_bytes": len(conf), "bytes": len(req.Bytes), "off": req.Offset, "done": req.Done, "resp": resp}
		if err != nil {
			c19Fail(rt, "C19/send-error", fmt.Sprintf("SendInstallSnapshot: %v", err), sample)
		}
		p.mu.Lock()
		r := p.gotIS
		p.mu.Unlock()
		if r == nil || r.LeaderID != req.LeaderID || r.Term != req.Term || r.LastIncludedIndex != req.LastIncludedIndex || r.LastIncludedTerm != req.LastIncludedTerm ||
			!bytes.Equal(r.Configuration, req.Configuration) || !bytes.Equal(r.Bytes, req.Bytes) || r.Offset != req.Offset || r.Done != req.Done {
			c19Fail(rt, "C19/install-snapshot-request", fmt.Sprintf("received request differs from the one sent (label %d/%d, %d bytes, offset %d, done %v)", req.LastIncludedIndex, req.LastIncludedTerm, len(req.Bytes), req.Offset, req.Done), sample)
		}
		if got != resp {
			c19Fail(rt, "C19/install-snapshot-response", fmt.Sprintf("returned %+v, handler answered %+v", got, resp), sample)
		}
		return kind, len(req.Bytes) > 32*1024 || req.Term == ^uint64(0) || !isASCII(req.LeaderID), sample
	case "log":
		os.RemoveAll(dir)
		l, err := raft.NewLog(dir)
		if err != nil {
			rt.Fatalf("NewLog: %v", err)
		}
		if err := l.Open(); err != nil {
			rt.Fatalf("Open: %v", err)
		}
		if err := l.Replay(); err != nil {
			rt.Fatalf("Replay: %v", err)
		}
		n := rapid.IntRange(1, 8).Draw(rt, "entries")
		var es []*raft.LogEntry
		nt := false
		for i := 0; i < n; i++ {
			ty := raft.LogEntryType(rapid.IntRange(0, 2).Draw(rt, "ty"))
			var d []byte
			if ty == raft.ConfigurationEntry {
				_, d = genConf(rt, p.a)
				nt = true
			} else if rapid.IntRange(0, 9).Draw(rt, "big") == 0 {
				d = genBigData(rt, "data")
				nt = true
			} else {
				d = genData(rt, "data")
			}
			term := genU64(rt, "et")
			if term == 0 || term == ^uint64(0) {
				nt = true
			}
			es = append(es, raft.NewLogEntry(uint64(i+1), term, d, ty))
		}
		if err := l.AppendEntries(es); err != nil {
			rt.Fatalf("AppendEntries: %v", err)
		}
		// the stored records are rewritten by compaction and cut by truncation before they are read back:
		// what a record says about itself (its offset) must still describe where it is
		first := 1
		if n >= 3 && rapid.Bool().Draw(rt, "rewrite") {
			c := rapid.IntRange(1, n-2).Draw(rt, "compactAt")
			if err := l.Compact(uint64(c)); err != nil {
				rt.Fatalf("Compact: %v", err)
			}
			first = c + 1
			tr := rapid.IntRange(c+2, n).Draw(rt, "truncateAt")
			if err := l.Truncate(uint64(tr)); err != nil {
				rt.Fatalf("Truncate: %v", err)
			}
			es = es[:tr-1]
			for i := tr; i <= n; i++ {
				e := raft.NewLogEntry(uint64(i), ^uint64(0)-1, []byte{byte(i), 0xee}, raft.OperationEntry)
				es = append(es, e)
				if err := l.AppendEntry(e); err != nil {
					rt.Fatalf("AppendEntry: %v", err)
				}
			}
			nt = true
		}
		l.Close()
		l2, _ := raft.NewLog(dir)
		if err := l2.Open(); err != nil {
			rt.Fatalf("Open: %v", err)
		}
		sample := map[string]any{"kind": "log", "entries": n, "first_after_compaction": first}
		if err := l2.Replay(); err != nil {
			c19Fail(rt, "C19/log-replay-error", err.Error(), sample)
		}
		if li := l2.LastIndex(); li != uint64(n) {
			c19Fail(rt, "C19/log-read-back", fmt.Sprintf("last index %d after reopening, wrote up to %d", li, n), sample)
		}
		es = es[first-1:]
		var back []*raft.LogEntry
		for i := first; i <= n; i++ {
			e, err := l2.GetEntry(uint64(i))
			if err != nil {
				c19Fail(rt, "C19/log-read-back", err.Error(), sample)
			}
			back = append(back, e)
		}
		l2.Close()
		if d := sameEntries(es, back); d != "" {
			c19Fail(rt, "C19/log-read-back", d, sample)
		}
		return kind, nt, sample
	case "state":
		os.RemoveAll(dir)
		st, err := raft.NewStateStorage(dir)
		if err != nil {
			rt.Fatalf("NewStateStorage: %v", err)
		}
		term, vote := genU64(rt, "term"), genID(rt, "vote")
		if err := st.SetState(term, vote); err != nil {
			rt.Fatalf("SetState: %v", err)
		}
		st2, _ := raft.NewStateStorage(dir)
		gt, gv, err := st2.State()
		sample := map[string]any{"kind": "state", "term": term, "vote": vote}
		if err != nil || gt != term || gv != vote {
			c19Fail(rt, "C19/state-read-back", fmt.Sprintf("read back (%d,%q,%v), wrote (%d,%q)", gt, gv, err, term, vote), sample)
		}
		return kind, term == 0 || term == ^uint64(0) || !isASCII(vote) || vote == "", sample
	case "conf":
		cf, b := genConf(rt, p.a)
		back, err := p.b.DecodeConfiguration(b)
		sample := map[string]any{"kind": "conf", "members": len(cf.Members), "index": cf.Index}
		if err != nil || !sameConf(cf, back) {
			c19Fail(rt, "C19/configuration-round-trip", fmt.Sprintf("decoded %+v (%v), encoded %+v", back, err, cf), sample)
		}
		return kind, len(cf.Members) == 0 || cf.Index == ^uint64(0), sample
	default: // snapmeta
		os.RemoveAll(dir)
		ss, err := raft.NewSnapshotStorage(dir)
		if err != nil {
			rt.Fatalf("NewSnapshotStorage: %v", err)
		}
		_, conf := genConf(rt, p.a)
		idx, term := genU64(rt, "lii"), genU64(rt, "lit")
		payload := genData(rt, "payload")
		f, err := ss.NewSnapshotFile(idx, term, conf)
		if err != nil {
			rt.Fatalf("NewSnapshotFile: %v", err)
		}
		if _, err := f.Write(payload); err != nil {
			rt.Fatalf("Write: %v", err)
		}
		if err := f.Close(); err != nil {
			rt.Fatalf("Close: %v", err)
		}
		ss2, _ := raft.NewSnapshotStorage(dir)
		g, err := ss2.SnapshotFile()
		sample := map[string]any{"kind": "snapmeta", "index": idx, "term": term, "conf_bytes": len(conf), "payload": len(payload)}
		if err != nil || g == nil {
			c19Fail(rt, "C19/snapshot-read-back", fmt.Sprintf("SnapshotFile: %v (nil=%v)", err, g == nil), sample)
		}
		md := g.Metadata()
		var buf bytes.Buffer
		buf.ReadFrom(g)
		g.Close()
		if md.LastIncludedIndex != idx || md.LastIncludedTerm != term || !bytes.Equal(md.Configuration, conf) || !bytes.Equal(buf.Bytes(), payload) {
			c19Fail(rt, "C19/snapshot-read-back", fmt.Sprintf("read back (%d,%d,conf %dB,%dB), wrote (%d,%d,conf %dB,%dB)", md.LastIncludedIndex, md.LastIncludedTerm, len(md.Configuration), buf.Len(), idx, term, len(conf), len(payload)), sample)
		}
		return kind, idx == ^uint64(0) || idx == 0 || len(payload) > 32*1024, sample
	}
}

func isASCII(s string) bool {
	for _, r := range s {
		if r > 127 || r == 0 {
			return false
		}
	}
	return true
}

func TestC19(t *testing.T) {
	base := scratchRoot(t)
	col := stats.For("C19")
	col.Rule = c19Rule
	p := newCodecPair(t)
	defer p.close()
	n := 0
	rapid.Check(t, func(rt *rapid.T) {
		n++
		kind, nt, sample := oneCodecCase(rt, p, fmt.Sprintf("%s/d", base))
		b, _ := json.Marshal(sample)
		col.Case(nt, stats.Hash64(string(b)), []string{"kind:" + kind}, func() any { return sample })
		if n%500 == 0 {
			col.Flush()
		}
	})
}

// ---------------------------------------------------------------- end-to-end snapshot transfer

type payloadFSM struct {
	mu       sync.Mutex
	payload  []byte
	restored []byte
	gotOne   bool
	applied  int
	snapshot bool
}

func (f *payloadFSM) Apply(op *raft.Operation) interface{} {
	f.mu.Lock()
	defer f.mu.Unlock()
	f.applied++
	return f.applied
}

func (f *payloadFSM) Snapshot(w io.Writer) error {
	f.mu.Lock()
	p := f.payload
	f.snapshot = false
	f.mu.Unlock()
	_, err := w.Write(p)
	return err
}

func (f *payloadFSM) Restore(r io.Reader) error {
	b, err := io.ReadAll(r)
	f.mu.Lock()
	f.restored = b
	f.gotOne = true
	f.mu.Unlock()
	return err
}

func (f *payloadFSM) NeedSnapshot(int) bool {
	f.mu.Lock()
	defer f.mu.Unlock()
	return f.snapshot && f.applied >= 2
}

// transferSnapshot returns (ok, definite, why). A wrong payload is a definite failure; anything that
// depends on the wall clock (no leader yet, a submission that timed out, the snapshot not there yet)
// is not: the caller repeats the attempt with a longer wait before it concludes anything.
func transferSnapshot(t *testing.T, dir string, n int, wait time.Duration) (bool, bool, string) {
	ok, why := transferSnapshotOnce(t, dir, n, wait)
	return ok, !ok && strings.Contains(why, "differ from the leader's"), why
}

func transferSnapshotOnce(t *testing.T, dir string, n int, wait time.Duration) (bool, string) {
	payload := make([]byte, n)
	for i := range payload {
		payload[i] = byte(i*7 + i/255)
	}
	addrA, addrB := freeAddr(t), freeAddr(t)
	fa := &payloadFSM{payload: payload, snapshot: true}
	fb := &payloadFSM{}
	opts := []raft.Option{raft.WithElectionTimeout(150 * time.Millisecond), raft.WithHeartbeatInterval(25 * time.Millisecond), raft.WithLogLevel(logging.Fatal)}
	a, err := raft.NewRaft("a", addrA, fa, dir+"/a", opts...)
	if err != nil {
		return false, "NewRaft: " + err.Error()
	}
	if err := a.Bootstrap(map[string]string{"a": addrA}); err != nil {
		return false, "Bootstrap: " + err.Error()
	}
	if err := a.Start(); err != nil {
		return false, "Start: " + err.Error()
	}
	defer a.Stop()
	deadline := time.Now().Add(5*time.Second + wait)
	for a.Status().State != raft.Leader && time.Now().Before(deadline) {
		time.Sleep(20 * time.Millisecond)
	}
	for i := 0; i < 3; i++ {
		if r := a.SubmitOperation([]byte(fmt.Sprintf("op%d", i)), raft.Replicated, 2*time.Second+wait).Await(); r.Error() != nil {
			return false, "submit at the leader: " + r.Error().Error()
		}
	}
	// wait for the snapshot (the state machine asks for one after two applications)
	for time.Now().Before(deadline) {
		fa.mu.Lock()
		done := !fa.snapshot
		fa.mu.Unlock()
		if done {
			break
		}
		time.Sleep(20 * time.Millisecond)
	}
	time.Sleep(100 * time.Millisecond)
	b, err := raft.NewRaft("b", addrB, fb, dir+"/b", opts...)
	if err != nil {
		return false, "NewRaft(b): " + err.Error()
	}
	if err := b.Start(); err != nil {
		return false, "Start(b): " + err.Error()
	}
	defer b.Stop()
	a.AddServer("b", addrB, false, 3*time.Second)
	limit := time.Now().Add(wait)
	for time.Now().Before(limit) {
		fb.mu.Lock()
		got, have := fb.restored, fb.gotOne
		fb.mu.Unlock()
		if have {
			if bytes.Equal(got, payload) {
				return true, ""
			}
			return false, fmt.Sprintf("the new node restored %d bytes that differ from the leader's %d-byte snapshot", len(got), len(payload))
		}
		time.Sleep(25 * time.Millisecond)
	}
	return false, fmt.Sprintf("the new node did not receive the snapshot within %v (its status: %+v, leader: %+v)", wait, b.Status(), a.Status())
}

// TestC19Transfer: a leader holding a snapshot of N bytes brings an empty node up to date over
// the bundled transport (real gRPC, real time). N crosses the chunk size and the 4 MiB RPC limit.
func TestC19Transfer(t *testing.T) {
	if os.Getenv("VERIF_SHARD") != "" && os.Getenv("VERIF_SHARD") != "0" {
		t.Skip("the transfer check runs in shard 0 only")
	}
	col := stats.For("C19")
	sizes := []int{0, 1, 32*1024 - 1, 32 * 1024, 100 * 1024, 5 << 20}
	if thorough() {
		sizes = append(sizes, 32*1024+1, 3*32*1024, 1<<20, 4<<20-1024, 4<<20+1, 6<<20)
	}
	base := scratchRoot(t)
	for i, n := range sizes {
		// a time limit that is hit proves nothing on a busy machine: three attempts with growing limits;
		// only a transfer that never arrives (or arrives wrong) is reported
		var ok bool
		var why string
		for k, wait := range []time.Duration{8 * time.Second, 40 * time.Second, 120 * time.Second} {
			var definite bool
			ok, definite, why = transferSnapshot(t, fmt.Sprintf("%s/x%d-%d", base, i, k), n, wait)
			if ok || definite {
				break
			}
			col.Note(fmt.Sprintf("snapshot transfer of %d bytes, attempt %d: %s", n, k+1, why))
		}
		sample := map[string]any{"kind": "snapshot-transfer", "payload_bytes": n, "ok": ok}
		col.Case(true, stats.Hash64("transfer", n), []string{"kind:snapshot-transfer"}, func() any { return sample })
		if !ok {
			sig := "C19/snapshot-transfer"
			if n > 4<<20 {
				sig = "C19/snapshot-transfer-above-rpc-limit"
			}
			violation(t, "C19", "E-CODEC/transfer", sig, fmt.Sprintf("snapshot payload of %d bytes: %s", n, why), 1, sample, nil)
		}
	}
}
