package props

import (
	"encoding/json"
	"errors"
	"fmt"
	"os"
	"testing"

	"pgregory.net/rapid"

	"verif/harness/stats"
	"verif/harness/store"
)

// C12: the file-backed log recovers from a crash at any point.
//
// Generator: sequences of append / append-batch / truncate / compact / discard /
// close+reopen / kill+reopen, arguments within the callers' preconditions.
// Every mutating step's crash images (derived from the observed file delta:
// every byte prefix of an append, old/new for truncate, temp-file prefixes +
// rename for compact/discard) are reopened with the real constructors and
// compared with the model through the whole read API; the sequence may continue
// from any image.

const c12Rule = "sequence of log ops (append/batch/truncate/compact/discard/close/kill+reopen) with every crash image of every step reopened; non-trivial = the sequence itself continued from an image strictly inside an operation (partial record or temp file present), then performed >=1 mutation and was reopened again; distinct by hash of the literal op script"

func genLogOp(t *rapid.T, m store.LogModel, uniq *int) store.LogOp {
	li, lt := m.Last()
	kinds := []string{"append", "append", "append", "append1", "close_reopen", "kill_reopen", "discard"}
	if len(m.Ents) > 0 {
		kinds = append(kinds, "truncate", "truncate", "compact", "compact")
	}
	kind := rapid.SampledFrom(kinds).Draw(t, "kind")
	op := store.LogOp{Kind: kind, CrashAt: -1}
	genEnt := func(idx, term uint64) store.Ent {
		*uniq++
		var data []byte
		switch rapid.IntRange(0, 5).Draw(t, "dataKind") {
		case 0:
			data = nil
		case 1:
			data = []byte{}
		case 2:
			data = []byte{byte(*uniq)}
		case 3:
			n := rapid.IntRange(2, 40).Draw(t, "len")
			data = make([]byte, n)
			for i := range data {
				data[i] = byte(*uniq + i)
			}
		default:
			n := rapid.IntRange(41, 300).Draw(t, "len")
			data = rapid.SliceOfN(rapid.Byte(), n, n).Draw(t, "data")
		}
		return store.Ent{Index: idx, Term: term, Type: uint32(rapid.IntRange(0, 2).Draw(t, "type")), Data: data}
	}
	switch kind {
	case "append", "append1":
		n := 1
		if kind == "append" {
			n = rapid.IntRange(1, 8).Draw(t, "n")
		} else {
			op.Single = true
		}
		op.Kind = "append"
		term := lt
		for i := 0; i < n; i++ {
			if rapid.IntRange(0, 3).Draw(t, "termBump") == 0 {
				term += uint64(rapid.IntRange(1, 2).Draw(t, "bump"))
			}
			if term == 0 && rapid.Bool().Draw(t, "term0") {
				term = 1
			}
			op.Ents = append(op.Ents, genEnt(li+1+uint64(i), term))
		}
	case "truncate", "compact":
		op.Index = m.BI + 1 + uint64(rapid.IntRange(0, len(m.Ents)-1).Draw(t, "idx"))
	case "discard":
		// callers: InstallSnapshot with an index beyond what the node applied; any index >= boundary
		op.Index = m.BI + uint64(rapid.IntRange(0, len(m.Ents)+5).Draw(t, "idx"))
		if op.Index == 0 {
			op.Index = 1
		}
		op.Term = lt + uint64(rapid.IntRange(0, 2).Draw(t, "term"))
	}
	if op.Kind != "close_reopen" && op.Kind != "kill_reopen" {
		if rapid.IntRange(0, 3).Draw(t, "crash") == 0 {
			op.CrashAt = rapid.IntRange(0, 4000).Draw(t, "crashAt")
		}
	}
	return op
}

func runLogScript(base string, script store.LogScript, allCuts bool, next func(store.LogModel) (store.LogOp, bool)) (*store.LogCase, store.LogScript, error) {
	c, err := store.NewLogCase(base)
	if err != nil {
		return nil, script, err
	}
	defer c.Close()
	c.AllCuts = allCuts
	executed := store.LogScript{}
	i := 0
	for {
		var op store.LogOp
		if next != nil {
			var ok bool
			op, ok = next(c.Model)
			if !ok {
				break
			}
		} else {
			if i >= len(script.Ops) {
				break
			}
			op = script.Ops[i]
		}
		i++
		executed.Ops = append(executed.Ops, op)
		if err := c.Step(op); err != nil {
			return c, executed, err
		}
	}
	return c, executed, nil
}

func c12Outcome(t fataler, c *store.LogCase, script store.LogScript, err error) {
	col := stats.For("C12")
	if err != nil {
		var v *store.Violation
		var mm *store.ModelMismatch
		switch {
		case errors.As(err, &v):
			violation(t, "C12", "E-STORE/log", v.Signature, v.Msg, len(script.Ops), script, nil)
		case errors.As(err, &mm):
			col.Discard("model-mismatch")
			col.Note(mm.Error())
			fmt.Printf("MODEL-MISMATCH property=C12 %s\n", mm.Msg)
		default:
			t.Fatalf("harness error: %v", err)
		}
	}
	if c == nil {
		return
	}
	col.Count("images", int64(c.Images))
	col.Count("images_inside_op", int64(c.InsideImages))
	col.Count("reopens", int64(c.Reopens))
	var labels []string
	for l, n := range c.Labels {
		for i := 0; i < n; i++ {
			labels = append(labels, l)
		}
	}
	if c.CrashContinue > 0 {
		labels = append(labels, "case:continued-from-inside-op")
	}
	b, _ := json.Marshal(script)
	col.Case(c.MutAfterCrash, stats.Hash64(string(b)), labels, func() any {
		return map[string]any{"ops": summarizeLogScript(script), "images_checked": c.Images, "final_model": c.Model.String()}
	})
}

func summarizeLogScript(s store.LogScript) []string {
	var out []string
	for _, op := range s.Ops {
		d := op.Kind
		switch op.Kind {
		case "append":
			d += fmt.Sprintf("(%d entries from %d)", len(op.Ents), op.Ents[0].Index)
		case "truncate", "compact":
			d += fmt.Sprintf("(%d)", op.Index)
		case "discard":
			d += fmt.Sprintf("(%d,%d)", op.Index, op.Term)
		}
		if op.CrashAt >= 0 {
			d += fmt.Sprintf(" then crash@image %d", op.CrashAt)
		}
		out = append(out, d)
	}
	return out
}

func TestC12(t *testing.T) {
	base := scratchRoot(t)
	col := stats.For("C12")
	col.Rule = c12Rule
	maxLen := 40
	if thorough() {
		maxLen = 200
	}
	n := 0
	rapid.Check(t, func(rt *rapid.T) {
		n++
		dir := fmt.Sprintf("%s/c%d", base, n)
		defer os.RemoveAll(dir)
		steps := rapid.IntRange(1, maxLen).Draw(rt, "steps")
		// thorough: every byte boundary for short sequences, boundary-biased cuts for long ones
		all := thorough() && steps <= 12
		uniq := 0
		k := 0
		c, script, err := runLogScript(dir, store.LogScript{}, all, func(m store.LogModel) (store.LogOp, bool) {
			if k >= steps {
				return store.LogOp{}, false
			}
			k++
			return genLogOp(rt, m, &uniq), true
		})
		c12Outcome(rt, c, script, err)
		if n%200 == 0 {
			col.Flush()
		}
	})
}

// TestCorpusC12 replays the committed scripts (regressions, known-finding
// witnesses) without rapid, at full cut density.
func TestCorpusC12(t *testing.T) {
	base := scratchRoot(t)
	files := corpusFiles("C12")
	if f := os.Getenv("VERIF_REPLAY"); f != "" {
		files = []string{f}
	}
	for i, f := range files {
		r, err := loadReplay(f)
		if err != nil {
			t.Fatalf("%s: %v", f, err)
		}
		var sk syskillReplay
		if err := json.Unmarshal(r.Script, &sk); err == nil && sk.Kind == "log" {
			// a failure of the syscall-level crash sweep: same script, same kill point
			if syskillUnavailable("C12") {
				continue
			}
			sig, detail, _, _, _ := runSyskillLog(t, fmt.Sprintf("%s/r%d", base, i), sk.Log, 0, 0, sk.Point)
			corpusResult(t, "C12", f, sig, detail)
			continue
		}
		var script store.LogScript
		if err := json.Unmarshal(r.Script, &script); err != nil {
			t.Fatalf("%s: %v", f, err)
		}
		_, _, err = runLogScript(fmt.Sprintf("%s/r%d", base, i), script, true, nil)
		var v *store.Violation
		if errors.As(err, &v) {
			corpusResult(t, "C12", f, v.Signature, v.Msg)
		} else if err != nil {
			t.Fatalf("%s: %v", f, err)
		} else {
			corpusResult(t, "C12", f, "", "")
		}
	}
}
