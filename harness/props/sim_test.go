package props

import (
	"encoding/json"
	"fmt"
	"os"
	"strings"
	"testing"

	"pgregory.net/rapid"

	"verif/harness/sim"
	"verif/harness/stats"
)

// simProp describes one E-SIM based property check.
type simProp struct {
	ID       string
	Profile  sim.Profile
	Owns     []string // home properties of violations this check reports
	Rule     string
	Hooks    func() sim.Hooks
	Classify func(res *sim.Result, f *histFacts) (nontrivial bool, labels []string)
	// Known maps a violation to a known-finding signature (root-cause tight) or "".
	Refine func(res *sim.Result, v sim.Violation) string
}

// histFacts are generic facts about a history used by the non-triviality rules.
type histFacts struct {
	Leaders        map[string]bool // "node/term"
	LeaderChanges  int
	Restarts       int
	ImageRestarts  int
	Crashes        int
	StorageCrashes int
	Applies        int
	AppliedBy      map[uint64]map[string]bool
	CommonApplied  bool
	FirstCommitSeq int
	LeaderAfterCmt bool
	AckedWrites    int
	Reads          int
	OkReads        int
	Snapshots      int
	Installs       int
	Timeouts       int
	TimeoutApplied int
	MaxTerm        uint64
	HeldReleased   int
	Dups           int
	Drops          int
	MemberOK       int
	MemberReqs     int
	Elections      int
}

func facts(res *sim.Result) *histFacts {
	f := &histFacts{Leaders: map[string]bool{}, AppliedBy: map[uint64]map[string]bool{}}
	invoked := map[int]sim.ClientInfo{}
	appliedH := map[uint64]bool{}
	var timeouts []sim.ClientInfo
	for i := range res.History {
		e := &res.History[i]
		switch e.Kind {
		case "status":
			if e.Status.Term > f.MaxTerm {
				f.MaxTerm = e.Status.Term
			}
			if e.Status.Commit > 1 && f.FirstCommitSeq == 0 {
				f.FirstCommitSeq = e.Seq
			}
			if e.Status.State == "leader" {
				k := fmt.Sprintf("%s/%d", e.Node, e.Status.Term)
				if !f.Leaders[k] {
					f.Leaders[k] = true
					f.LeaderChanges++
					if f.FirstCommitSeq != 0 {
						f.LeaderAfterCmt = true
					}
				}
			}
		case "apply":
			if !e.Apply.Read && !e.Apply.Begin {
				f.Applies++
				m := f.AppliedBy[e.Apply.Index]
				if m == nil {
					m = map[string]bool{}
					f.AppliedBy[e.Apply.Index] = m
				}
				m[e.Node] = true
				if len(m) >= 2 {
					f.CommonApplied = true
				}
				appliedH[e.Apply.H] = true
			}
		case "fault":
			switch e.Fault.What {
			case "crash":
				f.Crashes++
				if e.Storage != nil && e.Storage.Op != "" {
					f.StorageCrashes++
				}
			case "start":
				if e.Inc > 1 && e.Fault.Err == "" {
					f.Restarts++
					if e.Fault.Image {
						f.ImageRestarts++
					}
				}
			}
		case "invoke":
			invoked[e.Client.Op] = *e.Client
			if e.Client.Type == "add" || e.Client.Type == "remove" {
				f.MemberReqs++
			}
		case "return":
			c := e.Client
			switch {
			case c.Type == "write" && c.Outcome == "ok":
				f.AckedWrites++
			case c.Type == "write" && c.Outcome == "timeout":
				f.Timeouts++
				timeouts = append(timeouts, *c)
			case (c.Type == "linread" || c.Type == "leaseread"):
				f.Reads++
				if c.Outcome == "ok" {
					f.OkReads++
				}
			case (c.Type == "add" || c.Type == "remove") && c.Outcome == "ok":
				f.MemberOK++
			}
		case "snapfile":
			if e.Snap.Origin == "local" {
				f.Snapshots++
			} else {
				f.Installs++
			}
		case "dup":
			f.Dups++
		case "drop":
			f.Drops++
		case "send":
			if e.Msg.Kind == "RV" && !e.Msg.Prevote {
				f.Elections++
			}
		}
	}
	for _, c := range timeouts {
		if appliedH[c.H] {
			f.TimeoutApplied++
		}
	}
	return f
}

func scriptSummary(s sim.CaseScript, max int) map[string]any {
	var acts []string
	for _, a := range s.Actions {
		acts = append(acts, a.String())
	}
	if len(acts) > max {
		acts = append(append([]string{}, acts[:max]...), fmt.Sprintf("... %d more", len(acts)-max))
	}
	return map[string]any{"voters": s.Header.Voters, "non_voters": s.Header.NonVoters, "et_ms": s.Header.ET, "max_delay_us": s.Header.MaxDelayUs,
		"fsm_delays_ns": s.Header.Delays, "snap_thresh": s.Header.SnapThresh, "padding": s.Header.Padding, "actions": acts}
}

func owns(p *simProp, prop string) bool {
	if o := os.Getenv("VERIF_OWNS"); o != "" { // debugging aid: judge other properties' oracles under this profile
		return strings.Contains(o, prop)
	}
	for _, o := range p.Owns {
		if o == prop {
			return true
		}
	}
	return false
}

// stopOn: a case ends at the first violation of a property this check owns or of a known finding.
func stopOn(p *simProp) func(v sim.Violation) bool {
	return func(v sim.Violation) bool {
		return owns(p, v.Property) || stats.IsKnown(v.Property, v.Signature)
	}
}

// judgeResult turns a case result into the verdict of one property check.
func judgeResult(t fataler, p *simProp, res *sim.Result, replayFile string) (sig, detail string) {
	col := stats.For(p.ID)
	if res.Tainted != "" {
		col.Discard(res.Tainted)
		return "", ""
	}
	for _, v := range res.Violations {
		if !owns(p, v.Property) {
			col.Label("incidental:" + v.Signature)
			continue
		}
		s := v.Signature
		if p.Refine != nil {
			if r := p.Refine(res, v); r != "" {
				s = r
			}
		}
		if sig == "" || (stats.IsKnown(p.ID, sig) && !stats.IsKnown(p.ID, s)) {
			sig, detail = s, v.String()
		}
		if stats.IsKnown(p.ID, s) {
			col.AddFinding(stats.Finding{Signature: s, Detail: v.String(), Known: true})
		}
	}
	return sig, detail
}

func runSimProp(t *testing.T, p *simProp) {
	base := scratchRoot(t)
	col := stats.For(p.ID)
	col.Rule = p.Rule
	n := 0
	hooks := sim.Hooks{Oracles: func() []sim.Oracle { return []sim.Oracle{sim.NewSafety()} }}
	if p.Hooks != nil {
		hooks = p.Hooks()
	}
	hooks.StopOn = stopOn(p)
	prof := p.Profile
	if o := os.Getenv("VERIF_PATTERNS"); o != "" { // debugging aid: restrict the pattern mix
		prof.Patterns = strings.Split(o, ",")
	}
	rapid.Check(t, func(rt *rapid.T) {
		n++
		dir := fmt.Sprintf("%s/c%d", base, n)
		defer os.RemoveAll(dir)
		res := sim.RunGenerated(t, rt, dir, prof, hooks)
		finishCase(rt, p, res, "")
		if n%100 == 0 {
			col.Flush()
		}
	})
}

func finishCase(t fataler, p *simProp, res *sim.Result, file string) string {
	col := stats.For(p.ID)
	sig, detail := judgeResult(t, p, res, file)
	if res.Tainted == "" {
		f := facts(res)
		nt, labels := p.Classify(res, f)
		for l, c := range res.Labels {
			if strings.HasPrefix(l, "pat:") {
				labels = append(labels, l)
				_ = c
			}
		}
		b, _ := json.Marshal(res.Script)
		col.Count("events", int64(res.Events))
		col.Count("actions", int64(len(res.Script.Actions)))
		col.Count("applies", int64(f.Applies))
		col.Count("acked_writes", int64(f.AckedWrites))
		col.Count("leader_terms", int64(f.LeaderChanges))
		col.Count("restarts", int64(f.Restarts))
		col.Case(nt, stats.Hash64(string(b)), labels, func() any { return scriptSummary(res.Script, 60) })
	}
	if sig != "" && !stats.IsKnown(p.ID, sig) {
		if file != "" {
			return sig + "\n" + detail
		}
		violation(t, p.ID, "E-SIM/"+p.Profile.Name, sig, detail, len(res.Script.Actions), res.Script, res.History)
	}
	if sig != "" {
		return sig + "\n" + detail
	}
	return ""
}

// runSimCorpus replays committed scripts (and $VERIF_REPLAY) without rapid:
// first the saved history is re-judged by the oracles (deterministic), then
// the script is re-executed a few times (best effort, see DESIGN.md 2.1).
func runSimCorpus(t *testing.T, p *simProp) {
	base := scratchRoot(t)
	files := corpusFiles(p.ID)
	if f := os.Getenv("VERIF_REPLAY"); f != "" {
		files = []string{f}
	}
	for i, f := range files {
		r, err := loadReplay(f)
		if err != nil {
			t.Fatalf("%s: %v", f, err)
		}
		runSimCorpusFile(t, p, base, i, f, r)
	}
}

func runSimCorpusFile(t *testing.T, p *simProp, base string, i int, f string, r *Replay) {
	hooks := sim.Hooks{Oracles: func() []sim.Oracle { return []sim.Oracle{sim.NewSafety()} }}
	if p.Hooks != nil {
		hooks = p.Hooks()
	}
	hooks.StopOn = stopOn(p)
	var script sim.CaseScript
	if err := json.Unmarshal(r.Script, &script); err != nil {
		t.Fatalf("%s: %v", f, err)
	}
	sig, detail := "", ""
	if len(r.History) > 0 && os.Getenv("VERIF_REPLAY") != "" {
		// informational: the deterministic verdict of the oracles on the saved history
		var hist []sim.Event
		if err := json.Unmarshal(r.History, &hist); err == nil {
			res := &sim.Result{Script: script, History: hist, Violations: sim.Judge(hist, hooks.Oracles()...)}
			s, _ := judgeResult(t, p, res, f)
			fmt.Printf("REJUDGE property=%s file=%s saved-history verdict=%q\n", p.ID, f, s)
		}
	}
	tries := envInt("VERIF_REPLAY_TRIES", 3)
	repro := 0
	for k := 0; k < tries; k++ {
		res := sim.RunScript(t, fmt.Sprintf("%s/r%d-%d", base, i, k), p.Profile, script, hooks)
		if dump := os.Getenv("VERIF_DUMPHIST"); dump != "" && k == 0 {
			// debugging aid: the history of the first re-execution
			if b, err := json.Marshal(res.History); err == nil {
				os.WriteFile(dump, b, 0o644)
			}
		}
		s, d := judgeResult(t, p, res, f)
		if s != "" {
			repro++
			if sig == "" || (stats.IsKnown(p.ID, sig) && !stats.IsKnown(p.ID, s)) {
				sig, detail = s, d
			}
		}
		os.RemoveAll(fmt.Sprintf("%s/r%d-%d", base, i, k))
	}
	fmt.Printf("REEXEC property=%s file=%s reproduced=%d/%d\n", p.ID, f, repro, tries)
	corpusResult(t, p.ID, f, sig, detail)
}
