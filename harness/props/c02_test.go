package props

import (
	"testing"

	"verif/harness/sim"
)

// C02: election safety - at most one leader per term.
var propC02 = &simProp{
	ID: "C02",
	Profile: sim.Profile{
		Name: "C02", Voters: [2]int{2, 5}, NonVoters: [2]int{0, 2}, Phases: [2]int{2, 7},
		Patterns: []string{"P3", "P3", "P4", "P4b", "P4b", "P4b", "P5", "P5", "P6", "P11", "P23", "P23", "free", "free", "P1", "P2", "stopstart", "P12"},
		Writes:   true, Crashes: true, Stops: true, EpilogueET: 6, Prologue: true,
	},
	Owns: []string{"C02"},
	Rule: "generated cluster schedule (2-5 voters, 0-2 non-voters added through AddServer) emphasising simultaneous candidacies, lost/late vote replies, flaky links, crashes at term/vote writes and restarts; oracles: per-term uniqueness of nodes reporting leader state and of the leader named in AppendEntries/InstallSnapshot requests; " +
		"non-trivial = some term saw two or more distinct real (non-prevote) candidates, or a voter restarted between two real vote requests of one term, or a node left the pre-candidate/candidate state without a term change; distinct by script hash",
	Classify: func(res *sim.Result, f *histFacts) (bool, []string) {
		cands := map[uint64]map[string]bool{}
		restartedBetween := false
		lastRVTerm := map[string]uint64{} // voter -> term of last real RV handled
		restartSince := map[string]bool{} // voter restarted since that RV
		backToFollower := false
		lastState := map[string]sim.StatusInfo{}
		for i := range res.History {
			e := &res.History[i]
			switch e.Kind {
			case "send":
				if e.Msg.Kind == "RV" && !e.Msg.Prevote {
					m := cands[e.Msg.Term]
					if m == nil {
						m = map[string]bool{}
						cands[e.Msg.Term] = m
					}
					m[e.Msg.From] = true
				}
			case "handled":
				if e.Msg.Kind == "RV" && !e.Msg.Prevote && e.Msg.Err == "" {
					if lastRVTerm[e.Node] == e.Msg.Term && restartSince[e.Node] {
						restartedBetween = true
					}
					lastRVTerm[e.Node] = e.Msg.Term
					restartSince[e.Node] = false
				}
			case "fault":
				if e.Fault.What == "start" && e.Inc > 1 {
					restartSince[e.Node] = true
				}
			case "status":
				if old, ok := lastState[e.Node]; ok && (old.State == "precandidate" || old.State == "candidate") && e.Status.State == "follower" && old.Term == e.Status.Term {
					backToFollower = true
				}
				lastState[e.Node] = *e.Status
			}
		}
		multi := false
		for _, m := range cands {
			if len(m) >= 2 {
				multi = true
			}
		}
		var l []string
		if multi {
			l = append(l, "term-with-two-candidates")
		}
		if restartedBetween {
			l = append(l, "voter-restarted-between-vote-requests")
		}
		if backToFollower {
			l = append(l, "candidate-back-to-follower-same-term")
		}
		if res.Script.Header.NonVoters > 0 {
			l = append(l, "with-non-voters")
		}
		return multi || restartedBetween || backToFollower, l
	},
}

func TestC02(t *testing.T)       { runSimProp(t, propC02) }
func TestCorpusC02(t *testing.T) { runSimCorpus(t, propC02) }
