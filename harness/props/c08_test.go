package props

import (
	"encoding/json"
	"fmt"
	"os"
	"testing"
	"time"

	"github.com/jmsadair/raft"
	"pgregory.net/rapid"

	"verif/harness/sim"
	"verif/harness/stats"
)

// C08 (inputs part): one real node, generated RequestVote / AppendEntries /
// InstallSnapshot headers, time advances, crashes at storage writes and
// restarts; oracle = the voter constraints B2 (sim.Safety: term monotone across
// incarnations, one real vote per term, up-to-date restriction, vote persisted
// before the reply, prevote changes nothing) plus an exact before/after
// comparison of Status().Term and of the persisted (term, vote) around prevotes.

type voteStep struct {
	Op       string `json:"op"` // rv | ae | is | sleep | crash | armcrash | stop | restart
	Term     uint64 `json:"term,omitempty"`
	From     string `json:"from,omitempty"`
	LastIdx  uint64 `json:"last_idx,omitempty"`
	LastTerm uint64 `json:"last_term,omitempty"`
	Prevote  bool   `json:"prevote,omitempty"`
	Ms       int    `json:"ms,omitempty"`
	K        int    `json:"k,omitempty"`
	Before   bool   `json:"before,omitempty"`
}

type voteScript struct {
	Seed   sim.Seed   `json:"seed"`
	Header sim.Header `json:"header"`
	Steps  []voteStep `json:"steps"`
}

func genSeedLog(rt *rapid.T, maxLen int, maxTerm uint64) []sim.SeedEntry {
	n := rapid.IntRange(0, maxLen).Draw(rt, "logLen")
	var out []sim.SeedEntry
	term := uint64(1)
	for i := 0; i < n; i++ {
		if term < maxTerm && rapid.IntRange(0, 2).Draw(rt, "bump") == 0 {
			term++
		}
		idx := uint64(2 + i)
		ty := uint32(rapid.SampledFrom([]int{1, 1, 1, 0}).Draw(rt, "ty"))
		var d []byte
		if ty == 1 {
			d = sim.OpData(idx, term, 0)
		}
		out = append(out, sim.SeedEntry{Index: idx, Term: term, Type: ty, Data: d})
	}
	return out
}

func persistedState(dir string) (uint64, string, error) {
	st, err := raft.NewStateStorage(dir)
	if err != nil {
		return 0, "", err
	}
	return st.State()
}

// runVoteScript executes a script; next == nil replays s.Steps.
func runVoteScript(t *testing.T, base string, s *voteScript, next func(c *sim.Cluster, cur sim.StatusInfo, last [2]uint64) (voteStep, bool)) (*sim.Result, string) {
	extra := ""
	res := sim.RunNode(t, base, s.Header, []sim.Oracle{sim.NewSafety()}, func(c *sim.Cluster) {
		if err := c.SeedNode("n1", s.Seed); err != nil {
			panic(fmt.Sprintf("seed: %v", err))
		}
		if err := c.StartNode("n1", nil); err != nil {
			panic(fmt.Sprintf("start: %v", err))
		}
		c.Sleep(time.Millisecond)
		lastOf := func() [2]uint64 {
			_, ents, _ := c.LiveLog("n1")
			if len(ents) == 0 {
				return [2]uint64{1, 1}
			}
			e := ents[len(ents)-1]
			return [2]uint64{e.I, e.T}
		}
		i := 0
		for {
			v := c.Observe()
			cur := v.Status["n1"]
			var st voteStep
			if next != nil {
				var ok bool
				st, ok = next(c, cur, lastOf())
				if !ok {
					break
				}
				s.Steps = append(s.Steps, st)
			} else {
				if i >= len(s.Steps) {
					break
				}
				st = s.Steps[i]
			}
			i++
			running := c.Nodes["n1"].Running()
			switch st.Op {
			case "rv":
				if !running {
					continue
				}
				var bt uint64
				var bv string
				if st.Prevote {
					bt, bv, _ = persistedState(c.NodeDir("n1"))
				}
				before := c.Observe().Status["n1"]
				_, _ = c.Inject(st.From, "n1", raft.RequestVoteRequest{CandidateID: st.From, Term: st.Term, LastLogIndex: st.LastIdx, LastLogTerm: st.LastTerm, Prevote: st.Prevote})
				if st.Prevote && c.Nodes["n1"].Running() {
					after := c.Nodes["n1"].Raft().Status()
					at, av, _ := persistedState(c.NodeDir("n1"))
					if after.Term != before.Term || at != bt || av != bv {
						extra = fmt.Sprintf("prevote (term %d from %s) changed the voter: Status term %d -> %d, persisted (%d,%q) -> (%d,%q)", st.Term, st.From, before.Term, after.Term, bt, bv, at, av)
					}
				}
			case "ae":
				if !running {
					continue
				}
				l := lastOf()
				_, _ = c.Inject(st.From, "n1", raft.AppendEntriesRequest{LeaderID: st.From, Term: st.Term, PrevLogIndex: l[0], PrevLogTerm: l[1], LeaderCommit: 0})
			case "is":
				if !running {
					continue
				}
				// a snapshot that contains nothing new: only the term handling is exercised
				_, _ = c.Inject(st.From, "n1", raft.InstallSnapshotRequest{LeaderID: st.From, Term: st.Term, LastIncludedIndex: 0, LastIncludedTerm: 0, Done: true})
			case "sleep":
				c.Sleep(time.Duration(st.Ms) * time.Millisecond)
			case "crash":
				c.CrashNode("n1")
			case "armcrash":
				c.ArmCrash("n1", st.K, st.Before)
			case "stop":
				c.StopNode("n1")
				c.Sleep(2*c.ET() + 10*time.Millisecond)
			case "restart":
				if c.Nodes["n1"].Stopped() {
					if err := c.StartNode("n1", nil); err != nil {
						extra = "restart failed: " + err.Error()
					}
				}
			}
			c.Sleep(10 * time.Microsecond)
			if len(c.Rec().Violations()) > 0 || extra != "" {
				break
			}
		}
	})
	return res, extra
}

const c08Rule = "one real node (voter in a 3-voter configuration, or non-voter) seeded through the storage API with a generated log/term/vote, then 2-15 generated steps: RequestVote (term in cur-1..cur+2, candidate n2/n3/self, last index/term around the voter's, prevote flag), AppendEntries / InstallSnapshot headers with terms around the current one, time advances below and above the election timeout, crash at the next storage write (before/after) or right now, graceful stop, restart over the crash image; oracle: voter constraints across incarnations; " +
	"non-trivial = two real vote requests for one term from different candidates reached the voter with a restart or a role change of the voter between them; distinct by script hash"

func c08Classify(res *sim.Result) (bool, []string) {
	type rv struct {
		term uint64
		from string
	}
	last := map[string]*rv{}
	changed := map[string]bool{}
	lastState := map[string]string{}
	nt := false
	var labels []string
	seen := map[string]bool{}
	add := func(l string) {
		if !seen[l] {
			seen[l] = true
			labels = append(labels, l)
		}
	}
	for i := range res.History {
		e := &res.History[i]
		switch e.Kind {
		case "handled":
			m := e.Msg
			if m.Kind != "RV" || m.Err != "" {
				continue
			}
			if m.Prevote {
				add("prevote")
				if m.Success {
					add("prevote-granted")
				}
				continue
			}
			if m.Success {
				add("real-vote-granted")
			}
			if l := last[e.Node]; l != nil && l.term == m.Term && l.from != m.From && changed[e.Node] {
				nt = true
				add("two-candidates-one-term-with-restart-or-role-change-between")
			}
			last[e.Node] = &rv{m.Term, m.From}
			changed[e.Node] = false
		case "status":
			if ls := lastState[e.Node]; ls != "" && ls != e.Status.State {
				changed[e.Node] = true
				add("role-" + e.Status.State)
			}
			lastState[e.Node] = e.Status.State
		case "fault":
			if e.Fault.What == "start" && e.Inc > 1 {
				changed[e.Node] = true
				add("restart")
			}
			if e.Fault.What == "crash" && e.Storage != nil && e.Storage.Op != "" {
				add("crash-at-" + e.Storage.Op)
			}
		}
	}
	return nt, labels
}

func c08Finish(t fataler, script *voteScript, res *sim.Result, extra string, file string) string {
	col := stats.For("C08")
	if res.Tainted != "" {
		col.Discard(res.Tainted)
		return ""
	}
	sig, detail := "", ""
	for _, v := range res.Violations {
		if v.Property != "C08" {
			continue // the shared monitor also judges other properties on the injected traffic; not this check's business
		}
		if sig == "" {
			sig, detail = v.Signature, v.String()
		}
	}
	if sig == "" && extra != "" {
		sig, detail = "C08/prevote-changed-state", extra
		if len(extra) > 7 && extra[:7] == "restart" {
			sig = "C08/restart-failed"
		}
	}
	nt, labels := c08Classify(res)
	b, _ := json.Marshal(script)
	col.Count("events", int64(res.Events))
	col.Case(nt, stats.Hash64(string(b)), labels, func() any { return script })
	if sig != "" {
		if file == "" {
			violation(t, "C08", "E-NODE/vote", sig, detail, len(script.Steps), script, res.History)
		}
		return sig + "\n" + detail
	}
	return ""
}

func genVoteStep(rt *rapid.T, cur sim.StatusInfo, last [2]uint64, running bool, et int) voteStep {
	if !running {
		return voteStep{Op: "restart"}
	}
	term := func() uint64 {
		d := rapid.SampledFrom([]int{0, 0, 0, 0, 1, 1, 1, -1, 2}).Draw(rt, "dterm")
		if int64(cur.Term)+int64(d) < 0 {
			return 0
		}
		return uint64(int64(cur.Term) + int64(d))
	}
	switch rapid.SampledFrom([]string{"rv", "rv", "rv", "rv", "rv", "rv", "ae", "ae", "is", "sleep", "sleep", "sleep", "sleep", "sleep", "crash", "armcrash", "armcrash", "stop"}).Draw(rt, "op") {
	case "rv":
		li := int64(last[0]) + int64(rapid.SampledFrom([]int{0, 0, 0, 1, 1, -1}).Draw(rt, "dli"))
		lt := int64(last[1]) + int64(rapid.SampledFrom([]int{0, 0, 0, 0, 1, -1}).Draw(rt, "dlt"))
		if li < 0 {
			li = 0
		}
		if lt < 0 {
			lt = 0
		}
		return voteStep{Op: "rv", Term: term(), From: rapid.SampledFrom([]string{"n2", "n3", "n2", "n3", "n1"}).Draw(rt, "cand"),
			LastIdx: uint64(li), LastTerm: uint64(lt), Prevote: rapid.IntRange(0, 3).Draw(rt, "prevote") == 0}
	case "ae":
		return voteStep{Op: "ae", Term: term(), From: rapid.SampledFrom([]string{"n2", "n3"}).Draw(rt, "leader")}
	case "is":
		return voteStep{Op: "is", Term: term(), From: rapid.SampledFrom([]string{"n2", "n3"}).Draw(rt, "leader")}
	case "sleep":
		return voteStep{Op: "sleep", Ms: rapid.SampledFrom([]int{1, et / 2, et - 1, et, et + 1, et + 1, 2*et + 1, 2*et + 1, 3 * et}).Draw(rt, "ms")}
	case "crash":
		return voteStep{Op: "crash"}
	case "armcrash":
		return voteStep{Op: "armcrash", K: rapid.IntRange(1, 2).Draw(rt, "k"), Before: rapid.Bool().Draw(rt, "before")}
	}
	return voteStep{Op: "stop"}
}

// voteTemplate queues a scenario of relative steps: a granted vote, a role
// change or restart of the voter, then a competing request in the same term.
type planned func(rt *rapid.T, cur sim.StatusInfo, last [2]uint64) voteStep

func voteTemplate(rt *rapid.T, et int) []planned {
	upToDate := func(rt *rapid.T, cur sim.StatusInfo, last [2]uint64, dterm int, cand string) voteStep {
		return voteStep{Op: "rv", Term: uint64(int64(cur.Term) + int64(dterm)), From: cand, LastIdx: last[0] + uint64(rapid.IntRange(0, 1).Draw(rt, "ahead")), LastTerm: last[1]}
	}
	longSleep := func(rt *rapid.T, cur sim.StatusInfo, last [2]uint64) voteStep {
		return voteStep{Op: "sleep", Ms: rapid.SampledFrom([]int{et + 1, et + et/2, 2*et + 1}).Draw(rt, "ms")}
	}
	first := rapid.SampledFrom([]string{"n2", "n3"}).Draw(rt, "first")
	second := "n3"
	if first == "n3" {
		second = "n2"
	}
	d0 := rapid.SampledFrom([]int{0, 1, 1}).Draw(rt, "d0")
	var out []planned
	out = append(out, longSleep, func(rt *rapid.T, cur sim.StatusInfo, last [2]uint64) voteStep {
		return upToDate(rt, cur, last, d0, first)
	})
	mids := rapid.IntRange(1, 3).Draw(rt, "mids")
	for i := 0; i < mids; i++ {
		switch rapid.SampledFrom([]string{"sleep", "ae", "ae", "crash", "armcrash", "stop", "prevote", "is"}).Draw(rt, "mid") {
		case "sleep":
			out = append(out, longSleep)
		case "ae":
			out = append(out, func(rt *rapid.T, cur sim.StatusInfo, last [2]uint64) voteStep {
				return voteStep{Op: "ae", Term: cur.Term, From: first}
			})
		case "is":
			out = append(out, func(rt *rapid.T, cur sim.StatusInfo, last [2]uint64) voteStep {
				return voteStep{Op: "is", Term: cur.Term, From: first}
			})
		case "crash":
			out = append(out, func(rt *rapid.T, cur sim.StatusInfo, last [2]uint64) voteStep { return voteStep{Op: "crash"} },
				func(rt *rapid.T, cur sim.StatusInfo, last [2]uint64) voteStep { return voteStep{Op: "restart"} })
		case "armcrash":
			out = append(out, func(rt *rapid.T, cur sim.StatusInfo, last [2]uint64) voteStep {
				return voteStep{Op: "armcrash", K: 1, Before: rapid.Bool().Draw(rt, "before")}
			})
		case "stop":
			out = append(out, func(rt *rapid.T, cur sim.StatusInfo, last [2]uint64) voteStep { return voteStep{Op: "stop"} },
				func(rt *rapid.T, cur sim.StatusInfo, last [2]uint64) voteStep { return voteStep{Op: "restart"} })
		case "prevote":
			out = append(out, func(rt *rapid.T, cur sim.StatusInfo, last [2]uint64) voteStep {
				st := upToDate(rt, cur, last, 1, second)
				st.Prevote = true
				return st
			})
		}
	}
	out = append(out, longSleep, func(rt *rapid.T, cur sim.StatusInfo, last [2]uint64) voteStep {
		return upToDate(rt, cur, last, 0, second)
	})
	return out
}

func TestC08(t *testing.T) {
	base := scratchRoot(t)
	col := stats.For("C08")
	col.Rule = c08Rule
	n := 0
	rapid.Check(t, func(rt *rapid.T) {
		n++
		dir := fmt.Sprintf("%s/c%d", base, n)
		defer os.RemoveAll(dir)
		s := &voteScript{}
		s.Header = sim.Header{Voters: 0, ET: rapid.SampledFrom([]int{300, 150}).Draw(rt, "et"), LD: 50, TimerSeed: rapid.Int64Range(1, 1<<30).Draw(rt, "timerSeed"), Tape: []byte{0}, MaxDelayUs: 200}
		s.Header.HB = s.Header.ET / 6
		voter := rapid.IntRange(0, 5).Draw(rt, "voter") != 0
		s.Seed.Members = map[string]bool{"n1": voter, "n2": true, "n3": true}
		s.Seed.Entries = genSeedLog(rt, 5, 3)
		lt := uint64(1)
		if k := len(s.Seed.Entries); k > 0 {
			lt = s.Seed.Entries[k-1].Term
		}
		s.Seed.Term = lt + uint64(rapid.IntRange(0, 2).Draw(rt, "dterm0"))
		s.Seed.Vote = rapid.SampledFrom([]string{"", "n2", "n3", "n1"}).Draw(rt, "vote0")
		if k := len(s.Seed.Entries); k > 0 {
			// the voter may have compacted its log: partly, or wholly (then everything it knows about its last
			// entry is what compaction left behind)
			switch rapid.IntRange(0, 5).Draw(rt, "compacted") {
			case 0:
				s.Seed.Boundary = s.Seed.Entries[k-1].Index
			case 1:
				s.Seed.Boundary = s.Seed.Entries[rapid.IntRange(0, k-1).Draw(rt, "boundaryAt")].Index
			}
		}
		steps := rapid.IntRange(2, 15).Draw(rt, "steps")
		k := 0
		var queue []planned
		res, extra := runVoteScript(t, dir, s, func(c *sim.Cluster, cur sim.StatusInfo, last [2]uint64) (voteStep, bool) {
			if k >= steps && len(queue) == 0 {
				return voteStep{}, false
			}
			k++
			running := c.Nodes["n1"].Running()
			if len(queue) == 0 && running && rapid.IntRange(0, 5).Draw(rt, "template") == 0 {
				queue = voteTemplate(rt, s.Header.ET)
			}
			if len(queue) > 0 {
				p := queue[0]
				queue = queue[1:]
				st := p(rt, cur, last)
				if !running && st.Op != "restart" && st.Op != "sleep" {
					return voteStep{Op: "restart"}, true
				}
				return st, true
			}
			return genVoteStep(rt, cur, last, running, s.Header.ET), true
		})
		c08Finish(rt, s, res, extra, "")
		if n%200 == 0 {
			col.Flush()
		}
	})
}

func TestCorpusC08(t *testing.T) {
	base := scratchRoot(t)
	files := corpusFiles("C08")
	if f := os.Getenv("VERIF_REPLAY"); f != "" {
		files = []string{f}
	}
	for i, f := range files {
		r, err := loadReplay(f)
		if err != nil {
			t.Fatalf("%s: %v", f, err)
		}
		var s voteScript
		if err := json.Unmarshal(r.Script, &s); err != nil {
			t.Fatalf("%s: %v", f, err)
		}
		res, extra := runVoteScript(t, fmt.Sprintf("%s/r%d", base, i), &s, nil)
		out := c08Finish(t, &s, res, extra, f)
		sig, detail := "", ""
		if out != "" {
			fmt.Sscanf(out, "%s", &sig)
			detail = out
		}
		corpusResult(t, "C08", f, sig, detail)
	}
}

// C08 (schedules part): the vote ledger and term monotonicity in cluster runs.
var propC08Sim = &simProp{
	ID: "C08",
	Profile: func() sim.Profile {
		p := propC02.Profile
		p.Name = "C08"
		// voters that have compacted their log while running (the last entry a voter compares a candidate with may be
		// the one its snapshot ends with)
		p.Snapshots = "both"
		p.Patterns = append(append([]string(nil), p.Patterns...), "P30", "P30")
		return p
	}(),
	Owns: []string{"C08"},
	Rule: c08Rule + "; plus cluster schedules of C02 (scheduler-owned vote messages, duelling candidates, crashes at term/vote writes) judged by the same voter constraints per node",
	Classify: func(res *sim.Result, f *histFacts) (bool, []string) {
		nt, l := c08Classify(res)
		return nt, append(l, "cluster-schedule")
	},
}

func TestC08Sim(t *testing.T) { runSimProp(t, propC08Sim) }
