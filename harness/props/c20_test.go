package props

import (
	"testing"

	"verif/harness/sim"
)

// C20: concurrent use of a node is free of data races. The oracle is the Go race detector
// (the binary is built with -race; reports are collected and filtered by the driver).
var propC20 = &simProp{
	ID: "C20",
	Profile: sim.Profile{
		Name: "C20", Voters: [2]int{2, 4}, NonVoters: [2]int{0, 1}, Phases: [2]int{2, 5},
		Patterns: []string{"P20", "P20", "P20", "P7", "P10", "P18", "P3"},
		Writes:   true, LinReads: true, LeaseReads: true, Crashes: true, Stops: true, Membership: true, Snapshots: "both", FSMDelays: true, EpilogueET: 6, Prologue: true,
	},
	Owns: []string{"C20"},
	Rule: "generated workloads of 4-32 goroutines calling SubmitOperation (all types), Status, Configuration, AddServer and rendering on random nodes while the simulator (all cores, virtual time) forces leader changes, snapshots (armed and by threshold, slow state machines), membership changes and stop/start of the same instance; binary built with -race; oracle: no race-detector report whose two conflicting accesses are both inside github.com/jmsadair/raft (reports are de-duplicated by the pair of source locations); " +
		"non-trivial = the run contained a leader change, a snapshot, a membership request and a stop/start while at least 4 client goroutines were active; distinct by script hash",
	Classify: func(res *sim.Result, f *histFacts) (bool, []string) {
		stress, stopstart := 0, false
		for _, a := range res.Script.Actions {
			if a.Op == "stress" {
				stress += a.K
			}
			if a.Op == "api" && (a.Kind == "stop" || a.Kind == "restart" || a.Kind == "start") {
				stopstart = true
			}
		}
		var l []string
		if stress >= 4 {
			l = append(l, "concurrent-client-goroutines")
		}
		if f.LeaderChanges >= 2 {
			l = append(l, "leader-change")
		}
		if f.Snapshots+f.Installs > 0 {
			l = append(l, "snapshot")
		}
		if f.MemberReqs > 0 {
			l = append(l, "membership-request")
		}
		if stopstart || f.Restarts > 0 {
			l = append(l, "stop-start")
		}
		stats_count("C20", "stress_calls", res.Labels["stress-calls"])
		return stress >= 4 && f.LeaderChanges >= 2 && f.Snapshots+f.Installs > 0 && f.MemberReqs > 0 && (stopstart || f.Restarts > 0), l
	},
}

func TestC20(t *testing.T) { runSimProp(t, propC20) }
