package props

import (
	"testing"

	"verif/harness/sim"
)

// C03: replicated operations are linearizable and their futures tell the truth.
var propC03 = &simProp{
	ID: "C03",
	Profile: func() sim.Profile {
		p := safetyProfile("C03")
		p.Patterns = []string{"reads", "reads", "free", "free", "P1", "P1", "P2", "P3", "P4b", "P5", "P6", "P8", "P22", "P11", "P12", "stopstart", "P34", "P34"}
		p.Timeouts = []int{1, 20, 50, 200, 500, 2000}
		return p
	}(),
	Owns: []string{"C03"},
	Rule: "generated cluster schedule of C01 with 2-6 concurrent clients submitting unique operations to leaders, followers, candidates and stopped nodes with generated future timeouts; oracle over the invoke/return history and the authoritative applied order: returned bytes, (index, term) and state-machine result of every successful future, at-most-once application, real-time order between acknowledged and later-invoked operations; " +
		"non-trivial = at least two invocations overlapped in time and a leader change happened while a submission was pending; distinct by script hash",
	Classify: func(res *sim.Result, f *histFacts) (bool, []string) {
		open := map[int]bool{}
		overlap, changeWhilePending := false, false
		leaders := map[string]bool{}
		for i := range res.History {
			e := &res.History[i]
			switch e.Kind {
			case "invoke":
				if e.Client.Type == "write" {
					if len(open) > 0 {
						overlap = true
					}
					open[e.Client.Op] = true
				}
			case "return":
				delete(open, e.Client.Op)
			case "status":
				if e.Status.State == "leader" {
					k := e.Node + "/" + string(rune(e.Status.Term))
					if !leaders[k] {
						leaders[k] = true
						if len(open) > 0 && len(leaders) > 1 {
							changeWhilePending = true
						}
					}
				}
			}
		}
		var l []string
		if overlap {
			l = append(l, "overlapping-invocations")
		}
		if changeWhilePending {
			l = append(l, "leader-change-while-pending")
		}
		if f.TimeoutApplied > 0 {
			l = append(l, "timed-out-submission-later-applied")
		}
		if f.Timeouts > 0 {
			l = append(l, "future-timeout")
		}
		return overlap && changeWhilePending, l
	},
}

func TestC03(t *testing.T)       { runSimProp(t, propC03) }
func TestCorpusC03(t *testing.T) { runSimCorpus(t, propC03) }

// C04: acknowledged operations are on a majority's disk and survive crashes.
var propC04 = &simProp{
	ID: "C04",
	Profile: func() sim.Profile {
		p := safetyProfile("C04")
		p.Patterns = []string{"P6", "P6", "P6", "P11", "P11", "P11", "free", "free", "P1", "P12", "P8", "P22", "P22", "P35", "P35", "stopstart", "reads"} // (no P7/P33: snapshots are off here)
		p.Snapshots = ""                                                                                                                                  // the property quantifies with snapshots off (crash points of compaction and snapshot writes belong to C14)
		p.DiskCheck = true
		return p
	}(),
	Owns: []string{"C04"},
	Rule: "generated cluster schedule (1-5 voters incl. even sizes, static membership, snapshots off) with kills at arbitrary instants and immediately before/after generated storage operations, simultaneous crash of all nodes, restart of an arbitrary majority; at the first application of every index and at every acknowledgement each voter's log directory (crash image for crashed nodes) is copied and read back with the real constructors and a strict majority must hold the entry; restarted nodes must recover exactly what they had stored; " +
		"non-trivial = at least one acknowledged write followed by a storage-boundary crash or by a restart of only a majority; distinct by script hash",
	Classify: func(res *sim.Result, f *histFacts) (bool, []string) {
		acked := false
		after := false
		for i := range res.History {
			e := &res.History[i]
			switch e.Kind {
			case "return":
				if e.Client.Type == "write" && e.Client.Outcome == "ok" {
					acked = true
				}
			case "fault":
				if acked && e.Fault.What == "crash" && e.Storage != nil && e.Storage.Op != "" {
					after = true
				}
			case "action":
				if acked && e.Action.Pat == "P11" && e.Action.Op == "restart" {
					after = true
				}
			}
		}
		var l []string
		if f.StorageCrashes > 0 {
			l = append(l, "storage-boundary-crash")
		}
		if f.ImageRestarts > 0 {
			l = append(l, "restart-from-crash-image")
		}
		if res.Script.Header.Voters%2 == 0 {
			l = append(l, "even-cluster")
		}
		disk := 0
		for i := range res.History {
			if res.History[i].Kind == "disk" {
				disk++
			}
		}
		stats_count("C04", "disk_checks", disk)
		return acked && after, l
	},
}

func TestC04(t *testing.T)       { runSimProp(t, propC04) }
func TestCorpusC04(t *testing.T) { runSimCorpus(t, propC04) }

// C07: leader completeness.
var propC07 = &simProp{
	ID: "C07",
	Profile: func() sim.Profile {
		p := safetyProfile("C07")
		p.Patterns = []string{"P1", "P1", "P1", "P12", "P12", "P4b", "P5", "P6", "P11", "free", "P8", "P22", "P22", "P3", "P30", "P30"}
		p.Snapshots = "both" // voters that have compacted their log (fully, too) take part in elections
		return p
	}(),
	Owns: []string{"C07"},
	Rule: "generated cluster schedule of C01 biased to elections between long-but-old and short-but-newer logs (leader isolated after appending uncommitted entries, commits in a higher term elsewhere, racing candidacies, restarted voters); when a node is first seen leading a term (first request naming it, or Status) its stored log must contain every entry ever observed committed or applied, and no later truncation may remove one; " +
		"non-trivial = after at least one commit, an election took place while some voter's stored log differed from the winner's; distinct by script hash",
	Classify: func(res *sim.Result, f *histFacts) (bool, []string) {
		// shadow last (index, term) per node from storage events
		last := map[string][2]uint64{}
		committed := false
		differ := false
		shorterWon := false
		seenLeader := map[string]bool{}
		for i := range res.History {
			e := &res.History[i]
			switch e.Kind {
			case "storage":
				st := e.Storage
				if st.Err != "" {
					continue
				}
				switch st.Op {
				case "log.append", "log.state":
					if n := len(st.Ents); n > 0 {
						last[e.Node] = [2]uint64{st.Ents[n-1].I, st.Ents[n-1].T}
					}
				case "log.truncate":
					last[e.Node] = [2]uint64{st.Index - 1, 0}
				}
			case "status":
				if e.Status.Commit > 1 {
					committed = true
				}
				if e.Status.State == "leader" {
					k := e.Node + "/" + string(rune(e.Status.Term))
					if !seenLeader[k] {
						seenLeader[k] = true
						if committed {
							for n, l := range last {
								if n != e.Node && l != last[e.Node] {
									differ = true
									if l[0] > last[e.Node][0] {
										shorterWon = true
									}
								}
							}
						}
					}
				}
			}
		}
		var l []string
		if differ {
			l = append(l, "election-with-differing-logs")
		}
		if shorterWon {
			l = append(l, "winner-had-shorter-log-than-a-voter")
		}
		if f.Restarts > 0 {
			l = append(l, "restart")
		}
		return differ, l
	},
}

func TestC07(t *testing.T)       { runSimProp(t, propC07) }
func TestCorpusC07(t *testing.T) { runSimCorpus(t, propC07) }
