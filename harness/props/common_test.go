//go:debug randseednop=0
package props

import (
	"encoding/json"
	"fmt"
	"os"
	"path/filepath"
	"regexp"
	"sort"
	"strconv"
	"strings"
	"sync"
	"testing"

	"verif/harness/stats"
)

func TestMain(m *testing.M) {
	code := m.Run()
	stats.FlushAll()
	os.Exit(code)
}

func tier() string {
	if t := os.Getenv("VERIF_TIER"); t != "" {
		return t
	}
	return "quick"
}

func thorough() bool { return tier() == "thorough" }

func envInt(name string, def int) int {
	if v, err := strconv.Atoi(os.Getenv(name)); err == nil {
		return v
	}
	return def
}

// scratchRoot is where per-case data directories live (tmpfs when available).
func scratchRoot(t testing.TB) string {
	base := os.Getenv("VERIF_SCRATCH")
	if base == "" {
		if st, err := os.Stat("/dev/shm"); err == nil && st.IsDir() {
			base = "/dev/shm"
		} else {
			base = os.TempDir()
		}
	}
	d, err := os.MkdirTemp(base, fmt.Sprintf("verif-%d-", os.Getpid()))
	if err != nil {
		t.Fatalf("scratch: %v", err)
	}
	t.Cleanup(func() { os.RemoveAll(d) })
	return d
}

var sanitize = regexp.MustCompile(`[^A-Za-z0-9_.-]+`)

type replayKey struct{ prop, sig string }

var (
	replayMu   sync.Mutex
	replaySize = map[replayKey]int{}
)

// Replay is the on-disk replay file format (DESIGN.md appendix A).
type Replay struct {
	Property  string          `json:"property"`
	Engine    string          `json:"engine"`
	Tier      string          `json:"tier"`
	Seed      uint64          `json:"seed"`
	Shard     int             `json:"shard"`
	Signature string          `json:"signature"`
	Violation string          `json:"violation"`
	Script    json.RawMessage `json:"script"`
	History   json.RawMessage `json:"history,omitempty"`
}

// fataler is *testing.T or *rapid.T.
type fataler interface {
	Fatalf(format string, args ...any)
}

// violation handles an oracle failure of a generated or replayed case.
//
// A violation whose signature is listed as a known finding is counted and
// sampled but does not fail the case, so the search continues behind it. Any
// other violation is written to a replay file (the smallest script per
// signature is kept while rapid shrinks) and fails the case.
func violation(t fataler, prop, engine, sig, detail string, size int, script any, history any) {
	col := stats.For(prop)
	if stats.IsKnown(prop, sig) {
		col.AddFinding(stats.Finding{Signature: sig, Detail: detail, Known: true})
		return
	}
	path := saveReplay(prop, engine, sig, detail, size, script, history)
	col.AddFinding(stats.Finding{Signature: sig, Detail: detail, Replay: path, Known: false})
	col.Flush()
	t.Fatalf("VIOLATION-CANDIDATE property=%s signature=%s replay=%s\n%s", prop, sig, path, detail)
}

func saveReplay(prop, engine, sig, detail string, size int, script any, history any) string {
	dir := filepath.Join(stats.Root(), "replays", prop)
	_ = os.MkdirAll(dir, 0o755)
	col := stats.For(prop)
	name := fmt.Sprintf("%s-seed%d-shard%d.json", sanitize.ReplaceAllString(sig, "_"), col.Seed, col.Shard)
	path := filepath.Join(dir, name)
	replayMu.Lock()
	defer replayMu.Unlock()
	k := replayKey{prop, sig}
	sb, _ := json.Marshal(script)
	size = size*1000000 + len(sb) // fewer steps first, then the smaller script
	if old, ok := replaySize[k]; ok && old <= size {
		return path
	}
	replaySize[k] = size
	var hb []byte
	if history != nil {
		hb, _ = json.Marshal(history)
	}
	r := Replay{Property: prop, Engine: engine, Tier: tier(), Seed: col.Seed, Shard: col.Shard,
		Signature: sig, Violation: detail, Script: sb, History: hb}
	b, _ := json.MarshalIndent(r, "", " ")
	_ = os.WriteFile(path, b, 0o644)
	return path
}

func loadReplay(path string) (*Replay, error) {
	b, err := os.ReadFile(path)
	if err != nil {
		return nil, err
	}
	var r Replay
	if err := json.Unmarshal(b, &r); err != nil {
		return nil, err
	}
	return &r, nil
}

// corpusFiles lists the committed replay scripts of a property.
func corpusFiles(prop string) []string {
	files, _ := filepath.Glob(filepath.Join(stats.Root(), "corpus", prop, "*.json"))
	sort.Strings(files)
	return files
}

// corpusResult prints the outcome of one corpus/replay file in the form the
// driver parses, and records it.
func corpusResult(t *testing.T, prop, file, sig, detail string) {
	col := stats.For(prop)
	col.Count("corpus_run", 1)
	switch {
	case sig == "":
		col.Count("corpus_passed", 1)
		fmt.Printf("CORPUS property=%s file=%s result=ok\n", prop, filepath.Base(file))
	case stats.IsKnown(prop, sig):
		col.AddFinding(stats.Finding{Signature: sig, Detail: detail, Replay: file, Known: true})
		fmt.Printf("CORPUS property=%s file=%s result=known signature=%s\n", prop, filepath.Base(file), sig)
	default:
		col.AddFinding(stats.Finding{Signature: sig, Detail: detail, Replay: file, Known: false})
		fmt.Printf("CORPUS property=%s file=%s result=violation signature=%s\n", prop, filepath.Base(file), sig)
		t.Errorf("VIOLATION-CANDIDATE property=%s signature=%s replay=%s\n%s", prop, sig, file, firstLines(detail, 12))
	}
}

func firstLines(s string, n int) string {
	l := strings.Split(s, "\n")
	if len(l) > n {
		l = append(l[:n], "...")
	}
	return strings.Join(l, "\n")
}

func stats_count(prop, name string, n int) { stats.For(prop).Count(name, int64(n)) }
