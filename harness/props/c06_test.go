package props

import (
	"encoding/json"
	"fmt"
	"os"
	"sort"
	"testing"
	"time"

	"github.com/jmsadair/raft"
	"pgregory.net/rapid"

	"verif/harness/sim"
	"verif/harness/stats"
)

// C06 (inputs part): the follower's AppendEntries rule against reference model B1.
//
// A "world" is a truth log (what the legitimate leaders hold) and a follower
// cut from it with an optional divergent uncommitted tail and an optional
// compacted prefix. Requests are derived from sender states (truth prefixes in
// suitable terms), so Log Matching and Leader Completeness hold between sender
// and follower; stale, duplicated, overlapping and partial-suffix requests and
// every leaderCommit value arise from re-sending older sender states.

type wEntry struct {
	I, T uint64
	Y    uint32
	B    int // branch (0 = truth, 1 = divergent tail)
}

func (e wEntry) data() []byte {
	if e.Y == 1 {
		return sim.OpData(e.I, e.T, e.B)
	}
	return nil
}

type aeReq struct {
	Term    uint64   `json:"term"`
	Leader  string   `json:"leader"`
	Prev    uint64   `json:"prev"`
	PrevT   uint64   `json:"prevt"`
	Ents    []wEntry `json:"ents"`
	Commit  uint64   `json:"commit"`
	Restart bool     `json:"restart,omitempty"` // graceful stop + restart before this request
}

type c06Script struct {
	Truth    []wEntry   `json:"truth"`    // index 2..L
	Follower []wEntry   `json:"follower"` // index 2..
	Boundary uint64     `json:"boundary"`
	Commit   uint64     `json:"commit"`
	Term     uint64     `json:"term"`
	Reqs     []aeReq    `json:"reqs"`
	Header   sim.Header `json:"header"`
}

// followerModel is reference model B1.
type followerModel struct {
	bi, bt uint64
	ents   []wEntry // ents[k].I == bi+1+k ; index 1 (configuration) is represented with Y=2
	commit uint64
	term   uint64
}

func (m *followerModel) last() uint64 { return m.bi + uint64(len(m.ents)) }
func (m *followerModel) termAt(i uint64) (uint64, bool) {
	if i == m.bi {
		return m.bt, true
	}
	if i < m.bi || i > m.last() {
		return 0, false
	}
	return m.ents[i-m.bi-1].T, true
}

// recv applies the receiver rule. below reports prev < boundary (either answer allowed).
func (m *followerModel) recv(r aeReq) (accept bool, below bool, class string) {
	if r.Term < m.term {
		return false, false, "reject-stale-term"
	}
	m.term = r.Term
	if r.Prev < m.bi {
		return false, true, "prev-below-boundary"
	}
	pt, ok := m.termAt(r.Prev)
	if !ok {
		return false, false, "reject-prev-beyond-log"
	}
	if pt != r.PrevT {
		return false, false, "reject-prev-term-mismatch"
	}
	class = "accept-append"
	if len(r.Ents) == 0 {
		class = "accept-heartbeat"
	}
	overlap, conflict := false, false
	for k, e := range r.Ents {
		if e.I <= m.last() {
			t, _ := m.termAt(e.I)
			if t == e.T {
				overlap = true
				continue
			}
			conflict = true
			m.ents = m.ents[:e.I-m.bi-1]
		}
		m.ents = append(m.ents, r.Ents[k:]...)
		break
	}
	switch {
	case conflict:
		class = "accept-conflict-truncate"
	case overlap && r.Prev+uint64(len(r.Ents)) < m.last():
		class = "accept-stale-shorter-than-log"
	case overlap:
		class = "accept-overlap"
	case r.Prev+uint64(len(r.Ents)) < m.last():
		class = "accept-shorter-than-log"
	}
	return true, false, class
}

func toRaftEntries(es []wEntry) []*raft.LogEntry {
	out := make([]*raft.LogEntry, len(es))
	for i, e := range es {
		out[i] = raft.NewLogEntry(e.I, e.T, e.data(), raft.LogEntryType(e.Y))
	}
	return out
}

func genTerms(rt *rapid.T, n int, start, max uint64, label string) []uint64 {
	out := make([]uint64, n)
	t := start
	for i := range out {
		if t < max && rapid.IntRange(0, 2).Draw(rt, label) == 0 {
			t++
		}
		out[i] = t
	}
	return out
}

func genWorld(rt *rapid.T, maxEntries int, maxTerm uint64) *c06Script {
	s := &c06Script{}
	L := rapid.IntRange(0, maxEntries).Draw(rt, "truthLen")
	for i, t := range genTerms(rt, L, 1, maxTerm, "tt") {
		s.Truth = append(s.Truth, wEntry{I: uint64(2 + i), T: t, Y: uint32(rapid.SampledFrom([]int{1, 1, 1, 0}).Draw(rt, "ty"))})
	}
	c := rapid.IntRange(0, L).Draw(rt, "common") // follower shares truth[0:c]
	s.Follower = append(s.Follower, s.Truth[:c]...)
	k := rapid.IntRange(0, min(3, maxEntries-c)).Draw(rt, "tail")
	if k > 0 {
		// A divergent tail was written by leaders of terms in which the truth log has no entry
		// beyond the common prefix (one leader per term, and a leader's entries form one log),
		// otherwise the world itself would violate Log Matching.
		base := uint64(1)
		if c > 0 {
			base = s.Truth[c-1].T
		}
		used := map[uint64]bool{}
		for _, e := range s.Truth[c:] {
			used[e.T] = true
		}
		var free []uint64
		for t := base; t <= maxTerm; t++ {
			if !used[t] {
				free = append(free, t)
			}
		}
		if len(free) == 0 {
			k = 0
		}
		fi := 0
		for i := 0; i < k; i++ {
			if fi < len(free)-1 && rapid.IntRange(0, 2).Draw(rt, "ft") == 0 {
				fi++
			}
			s.Follower = append(s.Follower, wEntry{I: uint64(2 + c + i), T: free[fi], Y: 1, B: 1})
		}
	}
	commonLast := uint64(1 + c)
	s.Commit = uint64(rapid.IntRange(0, int(commonLast)).Draw(rt, "commit"))
	if s.Commit >= 2 && rapid.IntRange(0, 2).Draw(rt, "compact") == 0 {
		s.Boundary = uint64(rapid.IntRange(2, int(s.Commit)).Draw(rt, "boundary"))
	}
	if k == 0 && commonLast >= 2 && rapid.IntRange(0, 4).Draw(rt, "wholeLog") == 0 {
		// the snapshot covers the follower's whole log: what it knows about its last entry is what compaction left behind
		s.Commit, s.Boundary = commonLast, commonLast
	}
	lt := uint64(1)
	if n := len(s.Follower); n > 0 {
		lt = s.Follower[n-1].T
	}
	s.Term = lt + uint64(rapid.IntRange(0, 1).Draw(rt, "dterm"))
	return s
}

func (s *c06Script) truthTerm(i uint64) uint64 {
	if i == 0 {
		return 0
	}
	if i == 1 {
		return 1
	}
	return s.Truth[i-2].T
}

func genAE(rt *rapid.T, s *c06Script, cur uint64, maxTerm uint64) aeReq {
	L := uint64(1 + len(s.Truth))
	lo := s.Commit
	if lo < 1 {
		lo = 1
	}
	m := uint64(rapid.IntRange(int(lo), int(L)).Draw(rt, "senderLen")) // sender holds truth[..m]
	st := s.truthTerm(m)
	hiT := maxTerm + 1
	if m < L {
		hiT = s.truthTerm(m + 1)
	}
	if hiT < st {
		hiT = st
	}
	term := uint64(rapid.IntRange(int(st), int(hiT)).Draw(rt, "senderTerm"))
	switch rapid.IntRange(0, 7).Draw(rt, "termClass") {
	case 0:
		if cur > 0 {
			term = cur - 1 // stale leader
		}
	case 1:
		term = cur + 1
	case 2, 3, 4:
		if term < cur {
			term = cur
		}
	}
	plo := uint64(0)
	if s.Boundary > 1 {
		plo = s.Boundary - 1
	}
	if plo > m {
		plo = m
	}
	p := uint64(rapid.IntRange(int(plo), int(m)).Draw(rt, "prev"))
	q := m
	if rapid.IntRange(0, 2).Draw(rt, "partial") == 0 {
		q = uint64(rapid.IntRange(int(p), int(m)).Draw(rt, "upto"))
	}
	r := aeReq{Term: term, Leader: rapid.SampledFrom([]string{"n2", "n3"}).Draw(rt, "leader"), Prev: p, PrevT: s.truthTerm(p)}
	for i := p + 1; i <= q; i++ {
		if i == 1 {
			r.Ents = append(r.Ents, wEntry{I: 1, T: 1, Y: 2})
			continue
		}
		r.Ents = append(r.Ents, s.Truth[i-2])
	}
	r.Commit = uint64(rapid.IntRange(0, int(m)).Draw(rt, "leaderCommit"))
	r.Restart = rapid.IntRange(0, 14).Draw(rt, "restart") == 0
	return r
}

type c06Outcome struct {
	classes []string
	sig     string
	detail  string
}

func sameLog(first uint64, got []sim.EntryInfo, m *followerModel, confH uint64) string {
	if first != m.bi {
		return fmt.Sprintf("boundary %d, model %d", first, m.bi)
	}
	if len(got) != len(m.ents) {
		return fmt.Sprintf("%d entries after the boundary, model has %d", len(got), len(m.ents))
	}
	for i, e := range m.ents {
		g := got[i]
		wantH := sim.HashBytes(e.data())
		if e.Y == 2 {
			wantH = confH
		}
		if g.I != e.I || g.T != e.T || g.Y != e.Y || g.H != wantH {
			return fmt.Sprintf("entry %d is (t%d,ty%d), model has (t%d,ty%d,branch %d) or the data differs", g.I, g.T, g.Y, e.T, e.Y, e.B)
		}
	}
	return ""
}

// runC06 executes the script; next==nil replays s.Reqs.
func runC06(t *testing.T, base string, s *c06Script, next func(cur uint64) (aeReq, bool)) (*sim.Result, c06Outcome) {
	var out c06Outcome
	fail := func(sig, format string, a ...any) {
		if out.sig == "" {
			out.sig, out.detail = sig, fmt.Sprintf(format, a...)
		}
	}
	res := sim.RunNode(t, base, s.Header, []sim.Oracle{sim.NewSafety()}, func(c *sim.Cluster) {
		members := map[string]bool{"n1": true, "n2": true, "n3": true}
		seed := sim.Seed{Members: members, Boundary: s.Boundary, Term: s.Term}
		for _, e := range s.Follower {
			seed.Entries = append(seed.Entries, sim.SeedEntry{Index: e.I, Term: e.T, Type: e.Y, Data: e.data()})
		}
		if err := c.SeedNode("n1", seed); err != nil {
			panic(fmt.Sprintf("seed: %v", err))
		}
		if err := c.StartNode("n1", nil); err != nil {
			panic(fmt.Sprintf("start: %v", err))
		}
		c.Sleep(time.Millisecond)
		// model of the follower
		m := &followerModel{term: s.Term}
		all := append([]wEntry{{I: 1, T: 1, Y: 2}}, s.Follower...)
		if s.Boundary > 0 {
			m.bi = s.Boundary
			m.bt = all[s.Boundary-1].T
			m.ents = append(m.ents, all[s.Boundary:]...)
			m.commit = s.Boundary
		} else {
			m.ents = all
		}
		first, got, _ := c.LiveLog("n1")
		confH := uint64(0)
		if s.Boundary == 0 && len(got) > 0 {
			confH = got[0].H
		}
		if d := sameLog(first, got, m, confH); d != "" {
			panic("seeded log differs from the model: " + d)
		}
		// prime the commit index with a verified heartbeat from a legitimate leader
		if s.Commit > m.commit {
			pt, _ := m.termAt(s.Commit)
			r, err := c.Inject("n2", "n1", raft.AppendEntriesRequest{LeaderID: "n2", Term: s.Term, PrevLogIndex: s.Commit, PrevLogTerm: pt, LeaderCommit: s.Commit})
			if err != nil || !r.(raft.AppendEntriesResponse).Success {
				panic(fmt.Sprintf("priming heartbeat failed: %v %+v", err, r))
			}
			m.commit = s.Commit
			c.Sleep(time.Millisecond)
		}
		i := 0
		for out.sig == "" {
			var rq aeReq
			if next != nil {
				var ok bool
				rq, ok = next(m.term)
				if !ok {
					break
				}
				s.Reqs = append(s.Reqs, rq)
			} else {
				if i >= len(s.Reqs) {
					break
				}
				rq = s.Reqs[i]
			}
			i++
			if rq.Restart {
				c.StopNode("n1")
				c.Sleep(2*c.ET() + time.Second)
				if err := c.StartNode("n1", nil); err != nil {
					fail("C06/restart-failed", "%v", err)
					break
				}
				c.Sleep(time.Millisecond)
				// the commit index is volatile; after a restart it is the snapshot boundary
				m.commit = m.bi
				out.classes = append(out.classes, "restart")
			}
			before := c.Nodes["n1"].Raft().Status()
			if before.CommitIndex != m.commit {
				// the node's commit index is the model's lower bound: adopt it (it is checked below against the bound)
				m.commit = before.CommitIndex
			}
			preEnts := append([]wEntry(nil), m.ents...)
			preBi := m.bi
			preTerm := m.term
			preCommit := m.commit
			accept, below, class := m.recv(rq)
			resp, err := c.Inject(rq.Leader, "n1", raft.AppendEntriesRequest{LeaderID: rq.Leader, Term: rq.Term, PrevLogIndex: rq.Prev, PrevLogTerm: rq.PrevT,
				Entries: toRaftEntries(rq.Ents), LeaderCommit: rq.Commit})
			c.Sleep(100 * time.Microsecond)
			if err != nil {
				fail("C06/handler-error", "AppendEntries returned an error: %v", err)
				break
			}
			r := resp.(raft.AppendEntriesResponse)
			after := c.Nodes["n1"].Raft().Status()
			first, got, lerr := c.LiveLog("n1")
			if lerr != nil {
				panic(lerr)
			}
			desc := fmt.Sprintf("request %d %+v (class %s) on follower boundary=%d entries=%v commit=%d term=%d", i, rq, class, preBi, preEnts, preCommit, preTerm)
			wantTerm := preTerm
			if rq.Term > wantTerm {
				wantTerm = rq.Term
			}
			if r.Term != wantTerm {
				fail("C06/response-term", "%s: response term %d, want %d", desc, r.Term, wantTerm)
			}
			if below {
				class = "prev-below-boundary"
				if r.Success {
					// accepted although it cannot verify prev: the result must at least agree with the sender
					class = "prev-below-boundary-accepted"
				} else {
					m.ents, m.bi = preEnts, preBi
				}
			} else if r.Success != accept {
				fail("C06/wrong-decision", "%s: Success=%v, the receiver rule says %v", desc, r.Success, accept)
			}
			if !r.Success {
				rej := &followerModel{bi: preBi, bt: m.bt, ents: preEnts}
				if d := sameLog(first, got, rej, confH); d != "" {
					fail("C06/rejected-but-log-changed", "%s: rejected, but the log changed: %s", desc, d)
				}
				if after.CommitIndex != preCommit {
					fail("C06/rejected-but-commit-changed", "%s: rejected, but the commit index went %d -> %d", desc, preCommit, after.CommitIndex)
				}
				if r.Index > rq.Prev+1 && rq.Term >= preTerm && !below {
					// (the value of the hint is not part of the property beyond not pointing past prev+1)
					out.classes = append(out.classes, "hint-beyond-prev")
				}
			} else if !below {
				if d := sameLog(first, got, m, confH); d != "" {
					fail("C06/log-after-accept", "%s: accepted, but the resulting log is not the receiver rule's: %s", desc, d)
				}
				bound := rq.Prev + uint64(len(rq.Ents))
				if rq.Commit < bound {
					bound = rq.Commit
				}
				if bound < preCommit {
					bound = preCommit
				}
				if after.CommitIndex < preCommit {
					fail("C06/commit-decreased", "%s: commit index went %d -> %d", desc, preCommit, after.CommitIndex)
				}
				if after.CommitIndex > bound {
					fail("C06/commit-past-verified", "%s: commit index went %d -> %d, beyond min(leaderCommit, last entry verified by the request) = %d", desc, preCommit, after.CommitIndex, bound)
				}
				if rq.Commit > rq.Prev+uint64(len(rq.Ents)) {
					out.classes = append(out.classes, "commit-beyond-verified-prefix")
				}
				m.commit = after.CommitIndex
			}
			if rq.Prev == preBi && preBi > 0 {
				out.classes = append(out.classes, "prev-at-compacted-boundary")
			}
			out.classes = append(out.classes, class)
		}
	})
	return res, out
}

const c06Rule = "one real follower seeded (through the storage API) from a generated world: truth log of up to 5 entries over 3 terms (thorough: 6 over 4), follower = truth prefix + optional conflicting uncommitted tail, optional compacted prefix, commit index primed by a verified heartbeat; 1-12 AppendEntries requests derived from sender states (truth prefixes in suitable terms): every prev index, full and partial entry suffixes, every leaderCommit, lower/equal/higher term, stale/duplicate/overlapping re-sends, occasional graceful restart; oracle = receiver-rule reference model (decision, response term, exact resulting log, commit index within [old, max(old, min(leaderCommit, last verified entry))]); " +
	"non-trivial = the sequence hit overlap-accept, conflict-truncate, stale-shorter-than-log, a rejection class, the compacted boundary or a commit value beyond the verified prefix; distinct by script hash"

func c06Finish(t fataler, s *c06Script, res *sim.Result, out c06Outcome, file string) (string, string) {
	col := stats.For("C06")
	if res.Tainted != "" {
		col.Discard(res.Tainted)
		return "", ""
	}
	sig, detail := out.sig, out.detail
	for _, v := range res.Violations {
		if v.Property != "C06" {
			continue // the shared monitor also judges other properties on the injected traffic; not this check's business
		}
		if sig == "" {
			sig, detail = v.Signature, v.String()
		}
	}
	nt := false
	seen := map[string]bool{}
	var labels []string
	fclass := "plain"
	if s.Boundary > 0 {
		fclass = "compacted"
	}
	if len(s.Follower) > 0 && s.Follower[len(s.Follower)-1].B == 1 {
		fclass += "+divergent-tail"
	}
	for _, c := range out.classes {
		if !seen[c] {
			seen[c] = true
			labels = append(labels, "req:"+c, "pair:"+fclass+"/"+c)
		}
		switch c {
		case "accept-append", "accept-heartbeat", "restart", "hint-beyond-prev":
		default:
			nt = true
		}
	}
	sort.Strings(labels)
	b, _ := json.Marshal(s)
	col.Count("requests", int64(len(s.Reqs)))
	col.Case(nt, stats.Hash64(string(b)), labels, func() any { return s })
	if sig != "" && file == "" {
		violation(t, "C06", "E-NODE/append", sig, detail, len(s.Reqs), s, res.History)
	}
	return sig, detail
}

func c06Header() sim.Header {
	// timers play no role here: an hour of (virtual) election timeout
	return sim.Header{ET: 3600000, HB: 600000, LD: 1000, TimerSeed: 1, Tape: []byte{0}, MaxDelayUs: 200}
}

func TestC06(t *testing.T) {
	base := scratchRoot(t)
	col := stats.For("C06")
	col.Rule = c06Rule
	maxE, maxT := 5, uint64(3)
	if thorough() {
		maxE, maxT = 6, 4
	}
	n := 0
	rapid.Check(t, func(rt *rapid.T) {
		n++
		dir := fmt.Sprintf("%s/c%d", base, n)
		defer os.RemoveAll(dir)
		s := genWorld(rt, maxE, maxT)
		s.Header = c06Header()
		steps := rapid.IntRange(1, 12).Draw(rt, "reqs")
		k := 0
		res, out := runC06(t, dir, s, func(cur uint64) (aeReq, bool) {
			if k >= steps {
				return aeReq{}, false
			}
			k++
			return genAE(rt, s, cur, maxT), true
		})
		c06Finish(rt, s, res, out, "")
		if n%200 == 0 {
			col.Flush()
		}
	})
}

func TestCorpusC06(t *testing.T) {
	base := scratchRoot(t)
	files := corpusFiles("C06")
	if f := os.Getenv("VERIF_REPLAY"); f != "" {
		files = []string{f}
	}
	for i, f := range files {
		r, err := loadReplay(f)
		if err != nil {
			t.Fatalf("%s: %v", f, err)
		}
		var s c06Script
		if err := json.Unmarshal(r.Script, &s); err != nil {
			t.Fatalf("%s: %v", f, err)
		}
		res, out := runC06(t, fmt.Sprintf("%s/r%d", base, i), &s, nil)
		sig, detail := c06Finish(t, &s, res, out, f)
		corpusResult(t, "C06", f, sig, detail)
	}
}

// C06 (schedules part): pairwise log matching and truncation monitors in cluster runs.
var propC06Sim = &simProp{
	ID: "C06",
	Profile: func() sim.Profile {
		p := safetyProfile("C06")
		p.Patterns = []string{"P1", "P1", "P12", "P12", "P8", "P3", "P4b", "free", "free", "P6", "P11", "P2", "P22"}
		return p
	}(),
	Owns: []string{"C06"},
	Rule: c06Rule + "; plus cluster schedules of C01 judged by the monitors: pairwise Log Matching on the stored logs after every step, no truncation of a committed entry, no truncation at or below a commit index the node reported, commit index monotone within an incarnation (non-trivial there = a follower truncated its log at least once)",
	Classify: func(res *sim.Result, f *histFacts) (bool, []string) {
		trunc := 0
		for i := range res.History {
			e := &res.History[i]
			if e.Kind == "storage" && e.Storage.Op == "log.truncate" {
				trunc++
			}
		}
		l := []string{"cluster-schedule"}
		if trunc > 0 {
			l = append(l, "cluster:follower-truncated")
		}
		return trunc > 0, l
	},
}

func TestC06Sim(t *testing.T) { runSimProp(t, propC06Sim) }
