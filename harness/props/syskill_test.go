package props

import (
	"encoding/json"
	"errors"
	"fmt"
	"os"
	"testing"

	"pgregory.net/rapid"

	"verif/harness/stats"
	"verif/harness/store"
)

// TestSyskillHelper is the body of the helper process of the syscall-level crash sweep
// (store/syskill.go). It does nothing in an ordinary run.
func TestSyskillHelper(t *testing.T) {
	if os.Getenv("VERIF_SYSKILL_HELPER") == "" {
		t.Skip("helper of the syscall-level crash sweep")
	}
	store.SyskillHelperMain()
}

// syskillBudget: the sweep is expensive (a process under strace per crash point), so it takes only
// a part of the shard's case budget: cases beyond it return at once.
func syskillBudget() (cases int, pointsPerCase int) {
	if thorough() {
		return envInt("VERIF_SYSKILL_CASES", 80), 0 // every point of every case
	}
	return envInt("VERIF_SYSKILL_CASES", 6), 24
}

var syskillSkipNoted = map[string]bool{}

func syskillUnavailable(prop string) bool {
	ok, why := store.StraceAvailable()
	if !ok && !syskillSkipNoted[prop] {
		syskillSkipNoted[prop] = true
		stats.For(prop).Note("syscall-level crash sweep skipped: " + why)
		fmt.Printf("SYSKILL-SKIPPED property=%s %s\n", prop, why)
	}
	return !ok
}

// runSyskillSS runs one state/snapshot script under the syscall-level crash sweep.
func runSyskillSS(t fataler, base string, ops []store.SSOp, maxPoints, pick int, replayPoint *store.KillPoint) (sig, detail string, points int, killed int, pt store.KillPoint) {
	col := stats.For("C13")
	h, err := store.NewSysHarness(base+"/work", "TestSyskillHelper", store.SysScript{Kind: "ss", SS: ops})
	if err != nil {
		t.Fatalf("harness error: %v", err)
	}
	c, err := store.NewSSCase(base + "/verify")
	if err != nil {
		t.Fatalf("harness error: %v", err)
	}
	defer c.Close()
	var pts []store.KillPoint
	if replayPoint != nil {
		pts = []store.KillPoint{*replayPoint}
	} else {
		d0 := base + "/d0"
		os.MkdirAll(d0, 0o777)
		all, run, err := h.Points(d0)
		os.RemoveAll(d0)
		if err != nil {
			col.Note("syskill trace run failed: " + err.Error())
			return "", "", 0, 0, pt
		}
		if run.OpErr != "" {
			return "store/op-error", "operation within its preconditions failed in the helper: " + run.OpErr, 0, 0, pt
		}
		pts = store.SamplePoints(all, maxPoints, pick)
		points = len(all)
	}
	for i, p := range pts {
		d := fmt.Sprintf("%s/k%d", base, i)
		os.MkdirAll(d, 0o777)
		run, err := h.Kill(d, p)
		if err != nil {
			col.Note("syskill kill run failed: " + err.Error())
			os.RemoveAll(d)
			continue
		}
		if run.Killed {
			killed++
		}
		label := fmt.Sprintf("killed before %s (operations completed: %d, in flight: %d)", p, run.Done, run.InFlight)
		if run.OpErr != "" {
			os.RemoveAll(d)
			return "store/op-error", label + ": " + run.OpErr, points, killed, p
		}
		verr := store.VerifySSAfterKill(c, d, ops, run, label)
		os.RemoveAll(d)
		if verr != nil {
			var v *store.Violation
			if errors.As(verr, &v) {
				return "syskill/" + v.Signature, v.Msg, points, killed, p
			}
			t.Fatalf("harness error: %v", verr)
		}
	}
	return "", "", points, killed, pt
}

type syskillReplay struct {
	Kind  string           `json:"kind"`
	SS    []store.SSOp     `json:"ss,omitempty"`
	Log   []store.LogOp    `json:"log,omitempty"`
	Point *store.KillPoint `json:"point,omitempty"`
}

func genSyskillSSOps(rt *rapid.T) []store.SSOp {
	n := rapid.IntRange(1, 10).Draw(rt, "steps")
	open, written, snaps := false, 0, 0
	var ops []store.SSOp
	for i := 0; i < n; i++ {
		op := genSSOp(rt, nil, &open, &written, &snaps, 5)
		if op.Kind == "snap_read" || op.Kind == "snap_bulk" {
			op.Kind = "setstate"
			op.Term, op.Vote = uint64(i+1), fmt.Sprintf("n%d", i)
		}
		if op.CrashAt >= 0 {
			// crash_at belongs to the derived-image engine; here the kill point is the crash. genSSOp cleared
			// its writer flag for it - keep the script consistent by treating the operation as executed.
			op.CrashAt = -1
			if op.Kind == "snap_new" || op.Kind == "snap_write" {
				open = true
			}
		}
		ops = append(ops, op)
	}
	return ops
}

// TestC13Syscall: the state/snapshot storage under real kills between system calls.
func TestC13Syscall(t *testing.T) {
	if syskillUnavailable("C13") {
		return
	}
	base := scratchRoot(t)
	col := stats.For("C13")
	budget, perCase := syskillBudget()
	n := 0
	rapid.Check(t, func(rt *rapid.T) {
		n++
		if n > budget {
			return
		}
		dir := fmt.Sprintf("%s/y%d", base, n)
		defer os.RemoveAll(dir)
		ops := genSyskillSSOps(rt)
		pick := rapid.IntRange(0, 999).Draw(rt, "pick")
		sig, detail, points, killed, pt := runSyskillSS(rt, dir, ops, perCase, pick, nil)
		col.Count("syskill_cases", 1)
		col.Count("syskill_points_available", int64(points))
		col.Count("syskill_kills", int64(killed))
		b, _ := json.Marshal(ops)
		col.Case(killed > 0, stats.Hash64("syskill"+string(b)+fmt.Sprint(pick)), []string{"engine:syscall-kill"}, func() any {
			var ks []string
			for _, o := range ops {
				ks = append(ks, o.Kind)
			}
			return map[string]any{"engine": "syscall-kill", "ops": ks, "points": points, "kills": killed}
		})
		if sig != "" {
			violation(rt, "C13", "E-STORE/syscall-kill", sig, detail, len(ops), syskillReplay{Kind: "ss", SS: ops, Point: &pt}, nil)
		}
		if n%20 == 0 {
			col.Flush()
		}
	})
}

// runSyskillLog runs one log script under the syscall-level crash sweep.
func runSyskillLog(t fataler, base string, ops []store.LogOp, maxPoints, pick int, replayPoint *store.KillPoint) (sig, detail string, points int, killed int, pt store.KillPoint) {
	col := stats.For("C12")
	h, err := store.NewSysHarness(base+"/work", "TestSyskillHelper", store.SysScript{Kind: "log", Log: ops})
	if err != nil {
		t.Fatalf("harness error: %v", err)
	}
	var pts []store.KillPoint
	if replayPoint != nil {
		pts = []store.KillPoint{*replayPoint}
	} else {
		d0 := base + "/d0"
		os.MkdirAll(d0, 0o777)
		all, run, err := h.Points(d0)
		os.RemoveAll(d0)
		if err != nil {
			col.Note("syskill trace run failed: " + err.Error())
			return "", "", 0, 0, pt
		}
		if run.OpErr != "" {
			return "log/op-error", "operation within its preconditions failed in the helper: " + run.OpErr, 0, 0, pt
		}
		pts = store.SamplePoints(all, maxPoints, pick)
		points = len(all)
	}
	for i, p := range pts {
		d := fmt.Sprintf("%s/k%d", base, i)
		os.MkdirAll(d, 0o777)
		run, err := h.Kill(d, p)
		if err != nil {
			col.Note("syskill kill run failed: " + err.Error())
			os.RemoveAll(d)
			continue
		}
		if run.Killed {
			killed++
		}
		label := fmt.Sprintf("killed before %s (operations completed: %d, in flight: %d)", p, run.Done, run.InFlight)
		if run.OpErr != "" {
			os.RemoveAll(d)
			return "log/op-error", label + ": " + run.OpErr, points, killed, p
		}
		verr := store.VerifyLogAfterKill(d, ops, run, label)
		os.RemoveAll(d)
		if verr != nil {
			var v *store.Violation
			if errors.As(verr, &v) {
				return "syskill/" + v.Signature, v.Msg, points, killed, p
			}
			t.Fatalf("harness error: %v", verr)
		}
	}
	return "", "", points, killed, pt
}

func genSyskillLogOps(rt *rapid.T) []store.LogOp {
	n := rapid.IntRange(1, 12).Draw(rt, "steps")
	uniq := 0
	var ops []store.LogOp
	for i := 0; i < n; i++ {
		tr := store.LogTrajectory(ops)
		op := genLogOp(rt, tr[len(tr)-1], &uniq)
		op.CrashAt = -1 // the kill point is the crash
		ops = append(ops, op)
	}
	return ops
}

// TestC12Syscall: the file-backed log under real kills between system calls.
func TestC12Syscall(t *testing.T) {
	if syskillUnavailable("C12") {
		return
	}
	base := scratchRoot(t)
	col := stats.For("C12")
	budget, perCase := syskillBudget()
	n := 0
	rapid.Check(t, func(rt *rapid.T) {
		n++
		if n > budget {
			return
		}
		dir := fmt.Sprintf("%s/y%d", base, n)
		defer os.RemoveAll(dir)
		ops := genSyskillLogOps(rt)
		pick := rapid.IntRange(0, 999).Draw(rt, "pick")
		sig, detail, points, killed, pt := runSyskillLog(rt, dir, ops, perCase, pick, nil)
		col.Count("syskill_cases", 1)
		col.Count("syskill_points_available", int64(points))
		col.Count("syskill_kills", int64(killed))
		b, _ := json.Marshal(ops)
		col.Case(killed > 0, stats.Hash64("syskill"+string(b)+fmt.Sprint(pick)), []string{"engine:syscall-kill"}, func() any {
			var ks []string
			for _, o := range ops {
				ks = append(ks, o.Kind)
			}
			return map[string]any{"engine": "syscall-kill", "ops": ks, "points": points, "kills": killed}
		})
		if sig != "" {
			violation(rt, "C12", "E-STORE/syscall-kill", sig, detail, len(ops), syskillReplay{Kind: "log", Log: ops, Point: &pt}, nil)
		}
		if n%20 == 0 {
			col.Flush()
		}
	})
}
