package props

import (
	"testing"

	"verif/harness/sim"
)

// readFacts classifies the read-related content of a history.
func readFacts(res *sim.Result, kind string) (staleRisk, nonVoterPocket, ackedElsewhere bool, okReads int) {
	terms := map[string]uint64{}
	states := map[string]string{}
	acked := false
	for i := range res.History {
		e := &res.History[i]
		switch e.Kind {
		case "status":
			terms[e.Node] = e.Status.Term
			states[e.Node] = e.Status.State
		case "return":
			if e.Client.Type == "write" && e.Client.Outcome == "ok" {
				acked = true
			}
			if e.Client.Type == kind && e.Client.Outcome == "ok" {
				okReads++
			}
		case "invoke":
			if e.Client.Type != kind {
				continue
			}
			if states[e.Node] == "leader" {
				for n, t := range terms {
					if n != e.Node && t > terms[e.Node] {
						staleRisk = true
						if acked {
							ackedElsewhere = true
						}
					}
				}
			}
		case "action":
			if e.Action.Pat == "P9" && e.Action.Op == "partition" && len(e.Action.Set) > 1 {
				nonVoterPocket = true
			}
		}
	}
	return
}

// C05: linearizable reads are never stale, whatever the timing.
var propC05 = &simProp{
	ID: "C05",
	Profile: sim.Profile{
		Name: "C05", Voters: [2]int{3, 5}, NonVoters: [2]int{0, 2}, Phases: [2]int{2, 6},
		Patterns: []string{"P2", "P2", "P2", "P9", "P9", "P13", "P13", "P13", "P10", "P10", "P21", "P21", "P25", "P25", "P36", "P36", "reads", "reads", "free", "P1", "P8", "P3", "P4b"},
		Writes:   true, LinReads: true, Crashes: true, Stops: true, EpilogueET: 6, Prologue: true, FSMDelays: true, Membership: true,
		Timeouts: []int{200, 500, 1000, 2000}, MaxDelayUs: []int{400, 2000, 8000, 60000},
	},
	Owns: []string{"C05"},
	Rule: "generated cluster schedule (3-5 voters, 0-2 non-voters) with no bound on message delay: hold-partitions around a leader (messages retained and released later, oldest replies first), elections and acknowledged writes on the other side, linearizable reads and writes from several clients at any node, partitions that leave the old leader with non-voters only; oracle: a successful linearizable read reflects every write acknowledged before its invocation and non-overlapping reads do not go backwards; " +
		"non-trivial = a linearizable read was invoked at a node in leader state while another node had a higher term and a write had been acknowledged, or while the node was partitioned with non-voters only; distinct by script hash",
	Classify: func(res *sim.Result, f *histFacts) (bool, []string) {
		stale, pocket, acked, ok := readFacts(res, "linread")
		var l []string
		if stale {
			l = append(l, "read-at-deposed-leader")
		}
		if acked {
			l = append(l, "read-at-deposed-leader-after-ack-elsewhere")
		}
		if pocket {
			l = append(l, "leader-with-non-voters-only")
		}
		if ok > 0 {
			l = append(l, "successful-linearizable-read")
		}
		return acked || (pocket && f.Reads > 0), l
	},
}

func TestC05(t *testing.T)       { runSimProp(t, propC05) }
func TestCorpusC05(t *testing.T) { runSimCorpus(t, propC05) }
