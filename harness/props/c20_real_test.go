package props

import (
	"fmt"
	"io"
	"net"
	"os"
	"sync"
	"sync/atomic"
	"testing"
	"time"

	"github.com/jmsadair/raft"
	"github.com/jmsadair/raft/logging"
	"pgregory.net/rapid"

	"verif/harness/stats"
)

// C20, second engine: the same kind of concurrent workload on nodes that talk through the
// *bundled* gRPC transport in real time. The simulator replaces the transport, so code that only
// runs inside it (conversion of requests to and from their wire form, outside the node's mutex)
// is invisible there. The oracle is again the race detector; nothing is asserted about timing.

type raceFSM struct {
	mu           sync.Mutex
	applied      int
	thresh       int
	pad          int
	restoreDelay time.Duration // a slow Restore keeps the sender's InstallSnapshot RPC in flight
}

func (f *raceFSM) Apply(op *raft.Operation) interface{} {
	f.mu.Lock()
	defer f.mu.Unlock()
	if op.OperationType == raft.Replicated {
		f.applied++
	}
	return f.applied
}

func (f *raceFSM) Snapshot(w io.Writer) error {
	f.mu.Lock()
	n := f.applied
	f.mu.Unlock()
	_, err := w.Write(append([]byte(fmt.Sprintf("%d:", n)), make([]byte, f.pad)...))
	return err
}

func (f *raceFSM) Restore(r io.Reader) error {
	b, err := io.ReadAll(r)
	if err != nil {
		return err
	}
	var n int
	fmt.Sscanf(string(b), "%d:", &n)
	if f.restoreDelay > 0 {
		time.Sleep(f.restoreDelay)
	}
	f.mu.Lock()
	f.applied = n
	f.mu.Unlock()
	return nil
}

func (f *raceFSM) NeedSnapshot(logSize int) bool { return logSize >= f.thresh }

// Every address handed out by this process lies in a loopback block of its own: 127.<shard block>.<counter>.<counter>.
// Ports released by a stopped node are otherwise recycled by the OS for the nodes of *other* clusters (other
// shards run at the same time), and a leader that keeps calling a node that is down then talks to a stranger, whose
// answers (hints beyond the leader's own log) it trusts: that is how the "makeslice: cap out of range" death of
// F30 came about - cross-talk between independent clusters, not a defect of the library.
var addrSeq atomic.Int64

func loopbackHost() string {
	// (the block is chosen by process id: shards, the corpus run and other checks' processes that happen to run at
	// the same time all differ in it)
	n := addrSeq.Add(1)
	return fmt.Sprintf("127.%d.%d.%d", 16+(os.Getpid()%230), 1+(n/250)%250, 1+n%250)
}

func freeAddrF(t fataler) string {
	host := loopbackHost()
	l, err := net.Listen("tcp", host+":0")
	if err != nil {
		// (a platform without the whole 127/8 block on the loopback interface)
		l, err = net.Listen("tcp", "127.0.0.1:0")
		if err != nil {
			t.Fatalf("harness error: listen: %v", err)
		}
	}
	defer l.Close()
	return l.Addr().String()
}

type realParams struct {
	Nodes     int  `json:"nodes"`
	Thresh    int  `json:"snapshot_threshold"`
	Clients   int  `json:"clients"`
	Payload   int  `json:"payload"`
	PaceUs    int  `json:"pace_us"`
	RunMs     int  `json:"run_ms"`
	SnapPad   int  `json:"snapshot_padding"`
	AddNode   bool `json:"add_node"`
	StopStart bool `json:"stop_start_follower"`
	LateAdd   bool `json:"late_add"`
	RestoreMs int  `json:"newcomer_restore_ms"`
	LateMs    int  `json:"late_add_ms_before_stop"`
	KeepDown  bool `json:"keep_follower_down"` // the stopped follower stays down: the leader keeps trying to send it entries / its snapshot until the end
}

func runRealCluster(t fataler, dir string, p realParams) (ops int64, snaps bool) {
	n := p.Nodes
	ids := make([]string, n+1)
	addrs := make([]string, n+1)
	for i := range ids {
		ids[i] = fmt.Sprintf("r%d", i+1)
		addrs[i] = freeAddrF(t)
	}
	members := map[string]string{}
	for i := 0; i < n; i++ {
		members[ids[i]] = addrs[i]
	}
	opts := []raft.Option{raft.WithElectionTimeout(200 * time.Millisecond), raft.WithHeartbeatInterval(30 * time.Millisecond), raft.WithLogLevel(logging.Fatal)}
	nodes := make([]*raft.Raft, n+1)
	fsms := make([]*raceFSM, n+1)
	// (registered before any node exists: a case that cannot be set up - e.g. a port taken by another
	// process between freeAddr and Start - must not leave running nodes behind when its directory goes)
	defer func() {
		// the leader first: it may be in the middle of bringing somebody up to date
		for _, r := range nodes {
			if r != nil && r.Status().State == raft.Leader {
				r.Stop()
			}
		}
		for _, r := range nodes {
			if r != nil {
				r.Stop()
			}
		}
		// a node that has been stopped stays stopped (its directory is about to be removed)
		time.Sleep(30 * time.Millisecond)
		for i, r := range nodes {
			if r != nil {
				if st := r.Status(); st.State != raft.Shutdown {
					fmt.Printf("NODE-ALIVE-AFTER-STOP node=%s status=%+v params=%+v\n", ids[i], st, p)
					stats.For("C20").Note(fmt.Sprintf("node %s reports state %v after Stop() returned", ids[i], st.State))
				}
			}
		}
	}()
	for i := 0; i <= n; i++ {
		fsms[i] = &raceFSM{thresh: p.Thresh, pad: p.SnapPad}
		if i == n {
			fsms[i].restoreDelay = time.Duration(p.RestoreMs) * time.Millisecond
		}
		r, err := raft.NewRaft(ids[i], addrs[i], fsms[i], fmt.Sprintf("%s/%s", dir, ids[i]), opts...)
		if err != nil {
			stats.For("C20").Note("real-transport case could not be set up (NewRaft): " + err.Error())
			return 0, false
		}
		nodes[i] = r
		if i < n {
			if err := r.Bootstrap(members); err != nil {
				stats.For("C20").Note("real-transport case could not be set up (Bootstrap): " + err.Error())
				return 0, false
			}
		}
		if err := r.Start(); err != nil {
			stats.For("C20").Note("real-transport case could not be set up (Start): " + err.Error())
			return 0, false
		}
	}
	leader := func() *raft.Raft {
		for _, r := range nodes[:n] {
			if r.Status().State == raft.Leader {
				return r
			}
		}
		return nil
	}
	deadline := time.Now().Add(5 * time.Second)
	for leader() == nil && time.Now().Before(deadline) {
		time.Sleep(20 * time.Millisecond)
	}
	if leader() == nil {
		return 0, false // inconclusive: no leader in time on a loaded machine
	}
	stop := make(chan struct{})
	var wg sync.WaitGroup
	var done int64
	payload := make([]byte, p.Payload)
	for c := 0; c < p.Clients; c++ {
		wg.Add(1)
		go func(c int) {
			defer wg.Done()
			var futs []raft.Future[raft.OperationResponse]
			for i := 0; ; i++ {
				select {
				case <-stop:
					for _, f := range futs {
						f.Await()
					}
					return
				default:
				}
				l := leader()
				if l == nil {
					time.Sleep(5 * time.Millisecond)
					continue
				}
				ty := raft.Replicated
				if c%3 == 2 && i%4 == 3 {
					ty = raft.LinearizableReadOnly
				}
				futs = append(futs, l.SubmitOperation(payload, ty, 500*time.Millisecond))
				atomic.AddInt64(&done, 1)
				if len(futs) >= 32 {
					for _, f := range futs {
						f.Await()
					}
					futs = futs[:0]
				}
				time.Sleep(time.Duration(p.PaceUs) * time.Microsecond)
			}
		}(c)
	}
	// observers
	wg.Add(1)
	go func() {
		defer wg.Done()
		for {
			select {
			case <-stop:
				return
			default:
			}
			for _, r := range nodes {
				_ = r.Status()
				cf := r.Configuration()
				_ = cf.String()
			}
			time.Sleep(3 * time.Millisecond)
		}
	}()
	half := time.Duration(p.RunMs) * time.Millisecond / 2
	time.Sleep(half)
	if p.AddNode && !p.LateAdd {
		if l := leader(); l != nil {
			l.AddServer(ids[n], addrs[n], false, time.Second).Await()
		}
	}
	if p.StopStart {
		for _, r := range nodes[:n] {
			if r.Status().State != raft.Leader {
				r.Stop()
				if !p.KeepDown {
					time.Sleep(50 * time.Millisecond)
					_ = r.Start()
				}
				break
			}
		}
	}
	time.Sleep(half)
	close(stop)
	wg.Wait()
	if p.AddNode && p.LateAdd {
		// the newcomer is added at the very end: its snapshot transfer (slow Restore, big payload) is still
		// going on when the nodes are stopped, leader first
		if l := leader(); l != nil {
			l.AddServer(ids[n], addrs[n], false, 200*time.Millisecond)
		}
		time.Sleep(time.Duration(p.LateMs) * time.Millisecond)
	}
	for _, f := range fsms {
		f.mu.Lock()
		if f.applied >= p.Thresh {
			snaps = true
		}
		f.mu.Unlock()
	}
	return atomic.LoadInt64(&done), snaps
}

// TestC20Real takes a small part of the shard's case budget (each case runs in real time).
func TestC20Real(t *testing.T) {
	base := scratchRoot(t)
	col := stats.For("C20")
	budget := envInt("VERIF_REAL_CASES", 3)
	if thorough() {
		budget = envInt("VERIF_REAL_CASES", 25)
	}
	n := 0
	rapid.Check(t, func(rt *rapid.T) {
		n++
		if n > budget {
			return
		}
		dir := fmt.Sprintf("%s/real%d", base, n)
		defer os.RemoveAll(dir)
		p := realParams{
			Nodes:     rapid.IntRange(2, 3).Draw(rt, "nodes"),
			Thresh:    rapid.SampledFrom([]int{3, 3, 5, 10, 25}).Draw(rt, "thresh"),
			Clients:   rapid.IntRange(2, 6).Draw(rt, "clients"),
			Payload:   rapid.SampledFrom([]int{0, 8, 200, 5000}).Draw(rt, "payload"),
			PaceUs:    rapid.SampledFrom([]int{0, 200, 1000, 3000}).Draw(rt, "pace"),
			RunMs:     rapid.SampledFrom([]int{800, 1500, 2500}).Draw(rt, "run"),
			SnapPad:   rapid.SampledFrom([]int{0, 100, 40000, 1 << 20, 3 << 20}).Draw(rt, "pad"),
			AddNode:   rapid.Bool().Draw(rt, "add"),
			StopStart: rapid.Bool().Draw(rt, "stopstart"),
			KeepDown:  rapid.Bool().Draw(rt, "keepdown"),
			LateAdd:   rapid.Bool().Draw(rt, "lateadd"),
			RestoreMs: rapid.SampledFrom([]int{0, 400, 400}).Draw(rt, "restoreMs"),
			LateMs:    rapid.SampledFrom([]int{20, 60, 120, 250}).Draw(rt, "lateMs"),
		}
		fmt.Printf("REAL-CASE %d %+v\n", n, p) // (a case that kills the process cannot report its parameters afterwards)
		ops, snaps := runRealCluster(rt, dir, p)
		col.Count("real_transport_cases", 1)
		col.Count("real_transport_ops", ops)
		labels := []string{"engine:real-transport"}
		if snaps {
			labels = append(labels, "real:snapshots-while-replicating")
		}
		col.Case(snaps && ops >= 50, stats.Hash64(fmt.Sprintf("real%+v", p)), labels, func() any {
			return map[string]any{"engine": "real-transport", "params": p, "submitted": ops}
		})
	})
}
