// Package store is engine E-STORE: it drives the bundled file-backed storages
// through their public API next to an in-memory model and checks every crash
// image derived from the observed file-system delta of each call.
package store

import (
	"bytes"
	"encoding/binary"
	"fmt"
	"os"
	"path/filepath"
	"sort"
	"strings"

	"github.com/jmsadair/raft"
)

// ---------------------------------------------------------------- model (B4)

type Ent struct {
	Index uint64 `json:"i"`
	Term  uint64 `json:"t"`
	Type  uint32 `json:"ty"`
	Data  []byte `json:"d"`
}

// LogModel is the reference model of a log: a boundary (placeholder) entry and
// the entries after it.
type LogModel struct {
	BI, BT uint64
	Ents   []Ent
}

func (m LogModel) clone() LogModel {
	c := LogModel{BI: m.BI, BT: m.BT, Ents: make([]Ent, len(m.Ents))}
	copy(c.Ents, m.Ents)
	return c
}

func (m LogModel) Last() (uint64, uint64) {
	if len(m.Ents) == 0 {
		return m.BI, m.BT
	}
	e := m.Ents[len(m.Ents)-1]
	return e.Index, e.Term
}

func (m LogModel) termAt(i uint64) uint64 {
	if i == m.BI {
		return m.BT
	}
	return m.Ents[i-m.BI-1].Term
}

func (m LogModel) appendEnts(es []Ent) LogModel {
	c := m.clone()
	c.Ents = append(c.Ents, es...)
	return c
}

func (m LogModel) truncate(i uint64) LogModel {
	c := m.clone()
	c.Ents = c.Ents[:i-m.BI-1]
	return c
}

func (m LogModel) compact(i uint64) LogModel {
	c := LogModel{BI: i, BT: m.termAt(i)}
	c.Ents = append(c.Ents, m.Ents[i-m.BI:]...)
	return c
}

func (m LogModel) String() string {
	var sb strings.Builder
	fmt.Fprintf(&sb, "boundary=(%d,%d) [", m.BI, m.BT)
	for _, e := range m.Ents {
		fmt.Fprintf(&sb, "(%d,%d,ty%d,%dB)", e.Index, e.Term, e.Type, len(e.Data))
	}
	sb.WriteString("]")
	return sb.String()
}

// ---------------------------------------------------------------- scripts

// LogOp is one literal step of a generated sequence (the replay unit).
type LogOp struct {
	Kind    string `json:"kind"` // append | truncate | compact | discard | close_reopen | kill_reopen
	Ents    []Ent  `json:"ents,omitempty"`
	Single  bool   `json:"single,omitempty"` // use AppendEntry instead of AppendEntries
	Index   uint64 `json:"index,omitempty"`
	Term    uint64 `json:"term,omitempty"`
	CrashAt int    `json:"crash_at"` // -1: no crash; otherwise continue the sequence from image number CrashAt of this op (modulo the number of images)
}

type LogScript struct {
	Ops []LogOp `json:"ops"`
}

// ---------------------------------------------------------------- directory images

type dirImage map[string][]byte // file name (relative to <data>/log) -> content

func readDir(dir string) (dirImage, error) {
	img := dirImage{}
	ents, err := os.ReadDir(dir)
	if err != nil {
		return nil, err
	}
	for _, e := range ents {
		if e.IsDir() {
			return nil, fmt.Errorf("unexpected directory %q in log dir", e.Name())
		}
		b, err := os.ReadFile(filepath.Join(dir, e.Name()))
		if err != nil {
			return nil, err
		}
		img[e.Name()] = b
	}
	return img, nil
}

func (d dirImage) clone() dirImage {
	c := dirImage{}
	for k, v := range d {
		c[k] = v
	}
	return c
}

func (d dirImage) names() []string {
	var n []string
	for k := range d {
		n = append(n, k)
	}
	sort.Strings(n)
	return n
}

func (d dirImage) write(dataPath string) error {
	dir := filepath.Join(dataPath, "log")
	if err := os.MkdirAll(dir, 0o777); err != nil {
		return err
	}
	for k, v := range d {
		if err := os.WriteFile(filepath.Join(dir, k), v, 0o666); err != nil {
			return err
		}
	}
	return nil
}

// crashImage is one possible disk content at a crash instant together with
// the set of logical states the property allows after reopening it.
type crashImage struct {
	label  string
	files  dirImage
	accept []LogModel
	inside bool // strictly inside the operation (partial record / temp file present)
}

// ModelMismatch means the observed file-system delta of an operation does not
// have the shape the image generator assumes. It is not a verdict on the
// library: the driver reports it as inconclusive (exit 2).
type ModelMismatch struct{ Msg string }

func (m *ModelMismatch) Error() string { return "image-model mismatch: " + m.Msg }

// Violation is a property violation with everything needed to describe it.
type Violation struct {
	Signature string
	Msg       string
}

func (v *Violation) Error() string { return v.Signature + ": " + v.Msg }

// recordBoundaries parses "4-byte big-endian length + body" records; used only
// to choose interesting cut points. Returns nil if the bytes do not parse.
func recordBoundaries(b []byte) []int {
	var out []int
	off := 0
	for off < len(b) {
		if off+4 > len(b) {
			return nil
		}
		n := int(int32(binary.BigEndian.Uint32(b[off:])))
		if n < 0 || off+4+n > len(b) {
			return nil
		}
		off += 4 + n
		out = append(out, off)
	}
	return out
}

// cutPoints returns the byte cuts (0..len) of a delta to explore.
func cutPoints(delta []byte, all bool) []int {
	n := len(delta)
	if all || n <= 24 {
		c := make([]int, n+1)
		for i := range c {
			c[i] = i
		}
		return c
	}
	set := map[int]bool{0: true, n: true}
	bounds := recordBoundaries(delta)
	if bounds == nil {
		for i := 0; i <= 16; i++ {
			set[i*n/16] = true
		}
	} else {
		start := 0
		for _, end := range bounds {
			for _, d := range []int{0, 1, 3, 4, 5} {
				if start+d <= end {
					set[start+d] = true
				}
			}
			set[(start+end)/2] = true
			set[end-1] = true
			set[end] = true
			start = end
		}
	}
	var c []int
	for k := range set {
		c = append(c, k)
	}
	sort.Ints(c)
	return c
}

// ---------------------------------------------------------------- the case runner

const logFile = "log.bin"

// LogCase runs one script against the real log and the model.
type LogCase struct {
	Base     string // scratch root for this case (removed by the caller)
	AllCuts  bool   // explore every byte cut (thorough / replay)
	Probe    bool   // after each image check, also do an append+reopen probe
	dirSeq   int
	dataPath string
	log      raft.Log
	Model    LogModel

	// statistics
	Images        int
	InsideImages  int
	CrashContinue int  // continued the sequence from an image strictly inside an op
	MutAfterCrash bool // >=1 mutation and a second reopen after such a continuation
	Reopens       int
	afterInside   int
	Labels        map[string]int
}

func NewLogCase(base string) (*LogCase, error) {
	c := &LogCase{Base: base, Labels: map[string]int{}, Probe: true}
	c.dataPath = c.freshDir()
	l, err := openLog(c.dataPath)
	if err != nil {
		return nil, &Violation{"log/open-empty", err.Error()}
	}
	c.log = l
	return c, nil
}

func (c *LogCase) freshDir() string {
	c.dirSeq++
	return filepath.Join(c.Base, fmt.Sprintf("d%d", c.dirSeq))
}

func (c *LogCase) Close() {
	if c.log != nil {
		_ = c.log.Close()
	}
}

func openLog(dataPath string) (raft.Log, error) {
	l, err := raft.NewLog(dataPath)
	if err != nil {
		return nil, fmt.Errorf("NewLog: %w", err)
	}
	if err := l.Open(); err != nil {
		return nil, fmt.Errorf("Open: %w", err)
	}
	if err := l.Replay(); err != nil {
		_ = l.Close()
		return nil, fmt.Errorf("Replay: %w", err)
	}
	return l, nil
}

// compare checks the whole read API of l against m. Returns "" when equal.
func compare(l raft.Log, m LogModel) string {
	li, lt := m.Last()
	if got := l.LastIndex(); got != li {
		return fmt.Sprintf("LastIndex=%d want %d", got, li)
	}
	if got := l.LastTerm(); got != lt {
		return fmt.Sprintf("LastTerm=%d want %d", got, lt)
	}
	if got := l.NextIndex(); got != li+1 {
		return fmt.Sprintf("NextIndex=%d want %d", got, li+1)
	}
	if got := l.Size(); got != len(m.Ents) {
		return fmt.Sprintf("Size=%d want %d", got, len(m.Ents))
	}
	lo := m.BI
	if lo > 0 {
		lo--
	}
	for i := lo; i <= li+1; i++ {
		want := i > m.BI && i <= li
		if got := l.Contains(i); got != want {
			return fmt.Sprintf("Contains(%d)=%v want %v", i, got, want)
		}
		e, err := l.GetEntry(i)
		if !want {
			if err == nil {
				return fmt.Sprintf("GetEntry(%d) succeeded outside the log", i)
			}
			continue
		}
		if err != nil {
			return fmt.Sprintf("GetEntry(%d): %v", i, err)
		}
		w := m.Ents[i-m.BI-1]
		if e.Index != w.Index || e.Term != w.Term || uint32(e.EntryType) != w.Type || !bytes.Equal(e.Data, w.Data) {
			return fmt.Sprintf("GetEntry(%d)=(%d,%d,ty%d,%dB) want (%d,%d,ty%d,%dB)", i,
				e.Index, e.Term, e.EntryType, len(e.Data), w.Index, w.Term, w.Type, len(w.Data))
		}
	}
	return ""
}

func toEntries(es []Ent) []*raft.LogEntry {
	out := make([]*raft.LogEntry, len(es))
	for i, e := range es {
		d := e.Data
		if d != nil {
			d = append([]byte{}, d...)
		}
		out[i] = raft.NewLogEntry(e.Index, e.Term, d, raft.LogEntryType(e.Type))
	}
	return out
}

// checkImage reopens one crash image in a fresh directory and compares it
// with the acceptable models. Returns the index of the matching model.
func (c *LogCase) checkImage(img crashImage, keep bool) (int, raft.Log, string, error) {
	c.Images++
	if img.inside {
		c.InsideImages++
	}
	dp := c.freshDir()
	if err := img.files.write(dp); err != nil {
		return 0, nil, "", err
	}
	if !keep {
		defer os.RemoveAll(dp)
	}
	l, err := openLog(dp)
	if err != nil {
		return 0, nil, "", &Violation{"log/reopen-error", fmt.Sprintf("image %q (files %v): %v", img.label, describe(img.files), err)}
	}
	match := -1
	var why []string
	for i, m := range img.accept {
		d := compare(l, m)
		if d == "" {
			match = i
			break
		}
		why = append(why, d)
	}
	if match < 0 {
		_ = l.Close()
		return 0, nil, "", &Violation{"log/reopen-content", fmt.Sprintf("image %q: reopened log matches none of %d acceptable states: %v; first acceptable: %s",
			img.label, len(img.accept), why, img.accept[0])}
	}
	if c.Probe {
		// "keeps working": one append on the reopened image, reopen again.
		m := img.accept[match]
		li, lt := m.Last()
		probe := Ent{Index: li + 1, Term: lt + 1, Type: 1, Data: []byte("probe")}
		if err := l.AppendEntries(toEntries([]Ent{probe})); err != nil {
			_ = l.Close()
			return 0, nil, "", &Violation{"log/append-after-reopen", fmt.Sprintf("image %q: %v", img.label, err)}
		}
		m2 := m.appendEnts([]Ent{probe})
		if d := compare(l, m2); d != "" {
			_ = l.Close()
			return 0, nil, "", &Violation{"log/append-after-reopen", fmt.Sprintf("image %q: after probe append: %s", img.label, d)}
		}
		_ = l.Close()
		l2, err := openLog(dp)
		if err != nil {
			return 0, nil, "", &Violation{"log/second-reopen-error", fmt.Sprintf("image %q: reopen after one append on the recovered log: %v", img.label, err)}
		}
		if d := compare(l2, m2); d != "" {
			_ = l2.Close()
			return 0, nil, "", &Violation{"log/second-reopen-content", fmt.Sprintf("image %q: after append+reopen on the recovered log: %s", img.label, d)}
		}
		_ = l2.Close()
		if keep {
			// rebuild the un-probed image for continuation
			_ = os.RemoveAll(dp)
			if err := img.files.write(dp); err != nil {
				return 0, nil, "", err
			}
			l, err = openLog(dp)
			if err != nil {
				return 0, nil, "", &Violation{"log/reopen-error", fmt.Sprintf("image %q (second time): %v", img.label, err)}
			}
		}
	}
	if keep {
		return match, l, dp, nil
	}
	_ = l.Close()
	return match, nil, "", nil
}

func describe(d dirImage) string {
	var sb strings.Builder
	for _, n := range d.names() {
		fmt.Fprintf(&sb, "%s:%dB ", n, len(d[n]))
	}
	return sb.String()
}

// imagesFor derives the crash images of one operation from the observed
// before/after directory contents.
func (c *LogCase) imagesFor(op LogOp, before, after dirImage, mBefore, mAfter LogModel) ([]crashImage, error) {
	for n := range before {
		if n != logFile {
			return nil, &ModelMismatch{fmt.Sprintf("file %q present before %s", n, op.Kind)}
		}
	}
	for n := range after {
		if n != logFile {
			return nil, &Violation{"log/leftover-file", fmt.Sprintf("file %q left behind by %s", n, op.Kind)}
		}
	}
	b, a := before[logFile], after[logFile]
	var imgs []crashImage
	switch op.Kind {
	case "append":
		if !bytes.HasPrefix(a, b) {
			return nil, &ModelMismatch{"append did not extend log.bin"}
		}
		delta := a[len(b):]
		// acceptable: model before + any prefix of the in-flight entries
		var accept []LogModel
		for k := 0; k <= len(op.Ents); k++ {
			accept = append(accept, mBefore.appendEnts(op.Ents[:k]))
		}
		for _, cut := range cutPoints(delta, c.AllCuts) {
			f := dirImage{logFile: a[:len(b)+cut]}
			acc := accept
			if cut == len(delta) {
				// everything is on disk; nothing may be missing only if the call returned,
				// which for the image "after" it has.
				acc = []LogModel{mAfter}
				// but as a crash *inside* the call (before it returned) any prefix is allowed too;
				// the stricter reading is used because the bytes are all there and a reader that
				// drops complete records would lose acknowledged data on the next crash-free reopen.
			}
			imgs = append(imgs, crashImage{label: fmt.Sprintf("append cut %d/%d", cut, len(delta)), files: f, accept: acc,
				inside: cut > 0 && cut < len(delta)})
		}
	case "truncate":
		if !bytes.HasPrefix(b, a) {
			return nil, &ModelMismatch{"truncate did not shrink log.bin to a prefix"}
		}
		imgs = append(imgs,
			crashImage{label: "truncate before", files: dirImage{logFile: b}, accept: []LogModel{mBefore}},
			crashImage{label: "truncate after", files: dirImage{logFile: a}, accept: []LogModel{mAfter}})
	case "compact", "discard":
		// temp file written next to log.bin, then renamed over it.
		for _, cut := range cutPoints(a, c.AllCuts) {
			f := dirImage{logFile: b, "tmp-crash": a[:cut]}
			imgs = append(imgs, crashImage{label: fmt.Sprintf("%s temp %d/%d", op.Kind, cut, len(a)), files: f, accept: []LogModel{mBefore}, inside: true})
		}
		imgs = append(imgs, crashImage{label: op.Kind + " after", files: dirImage{logFile: a}, accept: []LogModel{mAfter}})
	default:
		return nil, fmt.Errorf("imagesFor: kind %q", op.Kind)
	}
	return imgs, nil
}

// Step executes one literal op: on the real log, on the model, and over all
// crash images of the op.
func (c *LogCase) Step(op LogOp) error {
	c.Labels["op:"+op.Kind]++
	logDir := filepath.Join(c.dataPath, "log")
	switch op.Kind {
	case "close_reopen", "kill_reopen":
		if op.Kind == "close_reopen" {
			if err := c.log.Close(); err != nil {
				return &Violation{"log/close-error", err.Error()}
			}
		} else {
			// process death after the last call returned: the old handle is abandoned
			// (closed only to release the descriptor; Close writes nothing).
			_ = c.log.Close()
		}
		l, err := openLog(c.dataPath)
		if err != nil {
			return &Violation{"log/reopen-error", fmt.Sprintf("%s: %v", op.Kind, err)}
		}
		c.log = l
		c.Reopens++
		if c.afterInside >= 2 {
			c.MutAfterCrash = true
		}
		if d := compare(c.log, c.Model); d != "" {
			return &Violation{"log/reopen-content", fmt.Sprintf("%s: %s; model %s", op.Kind, d, c.Model)}
		}
		return nil
	}

	before, err := readDir(logDir)
	if err != nil {
		return err
	}
	inoBefore := inode(filepath.Join(logDir, logFile))
	mBefore := c.Model
	var mAfter LogModel
	switch op.Kind {
	case "append":
		es := toEntries(op.Ents)
		if op.Single && len(es) == 1 {
			err = c.log.AppendEntry(es[0])
		} else {
			err = c.log.AppendEntries(es)
		}
		mAfter = mBefore.appendEnts(op.Ents)
	case "truncate":
		err = c.log.Truncate(op.Index)
		mAfter = mBefore.truncate(op.Index)
	case "compact":
		err = c.log.Compact(op.Index)
		mAfter = mBefore.compact(op.Index)
	case "discard":
		err = c.log.DiscardEntries(op.Index, op.Term)
		mAfter = LogModel{BI: op.Index, BT: op.Term}
	default:
		return fmt.Errorf("unknown op %q", op.Kind)
	}
	if err != nil {
		return &Violation{"log/op-error", fmt.Sprintf("%s within its preconditions failed: %v (model %s)", op.Kind, err, mBefore)}
	}
	if d := compare(c.log, mAfter); d != "" {
		return &Violation{"log/live-content", fmt.Sprintf("after %s: %s; model %s", op.Kind, d, mAfter)}
	}
	after, err := readDir(logDir)
	if err != nil {
		return err
	}
	imgs, err := c.imagesFor(op, before, after, mBefore, mAfter)
	if err != nil {
		return err
	}
	if (op.Kind == "compact" || op.Kind == "discard") && inoBefore != 0 && inode(filepath.Join(logDir, logFile)) == inoBefore {
		// log.bin kept its inode: it was rewritten in place, not replaced by a rename; a crash can
		// leave any prefix of the new content (or an empty file) where the old log was
		c.Labels["rewrite-in-place"]++
		a := after[logFile]
		for _, cut := range cutPoints(a, c.AllCuts) {
			imgs = append(imgs, crashImage{label: fmt.Sprintf("%s in place %d/%d", op.Kind, cut, len(a)), files: dirImage{logFile: a[:cut]},
				accept: []LogModel{mBefore, mAfter}, inside: cut < len(a)})
		}
	}
	c.Model = mAfter
	if c.afterInside >= 1 {
		c.afterInside = 2
	}
	cont := -1
	if op.CrashAt >= 0 && len(imgs) > 0 {
		cont = op.CrashAt % len(imgs)
	}
	for i, img := range imgs {
		keep := i == cont
		match, l, dp, err := c.checkImage(img, keep)
		if err != nil {
			return err
		}
		if keep {
			// the process "died" here: continue the sequence on the recovered log
			if c.afterInside >= 2 {
				c.MutAfterCrash = true
			}
			_ = c.log.Close()
			c.log = l
			c.dataPath = dp
			c.Model = img.accept[match]
			c.Reopens++
			c.Labels["continue-from:"+strings.Fields(img.label)[0]+"-"+map[bool]string{true: "inside", false: "boundary"}[img.inside]]++
			if img.inside {
				c.CrashContinue++
				c.afterInside = 1
			}
		}
	}
	return nil
}
