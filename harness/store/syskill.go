package store

// Syscall-level crash sweep ("E-STORE/syskill"): a generated operation script is executed by a
// helper process (the test binary re-executed) under `strace -e inject=...:signal=SIGKILL:when=K`,
// which kills the process immediately before the K-th invocation of a file-system system call on
// the goroutine-locked thread that runs the script. The parent then opens the directory the dead
// process left behind with the real constructors and compares with the model. Unlike the crash
// images of logcrash.go / statesnap.go, which are *derived* from the files observed before and
// after a call, these images are *real*: they show the order in which the code issues its system
// calls (e.g. a rename that happens before the data is written). A kill does not lose page-cache
// contents, so missing fsyncs are not visible here (the derived images cover that side).

import (
	"bufio"
	"bytes"
	"encoding/json"
	"fmt"
	"os"
	"os/exec"
	"path/filepath"
	"regexp"
	"runtime"
	"sort"
	"strconv"
	"strings"
	"syscall"
	"time"

	"github.com/jmsadair/raft"
)

// KillSyscalls are the system calls at which the helper may be killed.
var KillSyscalls = []string{"write", "pwrite64", "fsync", "fdatasync", "renameat", "renameat2", "rename", "unlinkat", "unlink", "ftruncate", "openat", "mkdirat", "close", "lseek"}

// SysScript is what the helper executes: exactly one of SS / Log is used.
type SysScript struct {
	Kind string  `json:"kind"` // "ss" | "log"
	SS   []SSOp  `json:"ss,omitempty"`
	Log  []LogOp `json:"log,omitempty"`
}

// KillPoint identifies one crash point: immediately before the K-th call of Syscall on the script thread.
type KillPoint struct {
	Syscall string `json:"syscall"`
	K       int    `json:"k"`
}

func (k KillPoint) String() string { return fmt.Sprintf("%s#%d", k.Syscall, k.K) }

// ---------------------------------------------------------------- helper side

// SyskillHelperMain runs in the re-executed test binary. It never returns normally on a kill.
func SyskillHelperMain() {
	runtime.LockOSThread()
	b, err := os.ReadFile(os.Getenv("VERIF_SYSKILL_SCRIPT"))
	if err != nil {
		fmt.Println("HELPER-ERROR", err)
		os.Exit(3)
	}
	var s SysScript
	if err := json.Unmarshal(b, &s); err != nil {
		fmt.Println("HELPER-ERROR", err)
		os.Exit(3)
	}
	dir := os.Getenv("VERIF_SYSKILL_DIR")
	out := os.Stdout
	say := func(f string, a ...any) { out.WriteString(fmt.Sprintf(f, a...) + "\n") } // one write(2) per line
	say("MARK")
	switch s.Kind {
	case "ss":
		helperSS(dir, s.SS, say)
	case "log":
		helperLog(dir, s.Log, say)
	}
	say("END")
	os.Exit(0)
}

func helperSS(dir string, ops []SSOp, say func(string, ...any)) {
	st, err := raft.NewStateStorage(dir)
	if err != nil {
		say("OPERR -1 NewStateStorage: %v", err)
		return
	}
	ss, err := raft.NewSnapshotStorage(dir)
	if err != nil {
		say("OPERR -1 NewSnapshotStorage: %v", err)
		return
	}
	var open raft.SnapshotFile
	for i, op := range ops {
		say("B %d", i)
		var err error
		switch op.Kind {
		case "setstate":
			err = st.SetState(op.Term, op.Vote)
		case "snap_new":
			if open == nil {
				open, err = ss.NewSnapshotFile(op.Index, op.Term, op.Conf)
			}
		case "snap_write":
			if open != nil {
				_, err = open.Write(pattern(op.Len, op.Seed))
			}
		case "snap_close":
			if open != nil {
				err = open.Close()
				open = nil
			}
		case "snap_discard":
			if open != nil {
				err = open.Discard()
				open = nil
			}
		case "reopen":
			open = nil
			if st, err = raft.NewStateStorage(dir); err == nil {
				ss, err = raft.NewSnapshotStorage(dir)
			}
		}
		if err != nil {
			say("OPERR %d %s: %v", i, op.Kind, err)
			return
		}
		say("E %d", i)
	}
}

func helperLog(dir string, ops []LogOp, say func(string, ...any)) {
	l, err := openLog(dir)
	if err != nil {
		say("OPERR -1 open: %v", err)
		return
	}
	for i, op := range ops {
		say("B %d", i)
		var err error
		switch op.Kind {
		case "append":
			es := toEntries(op.Ents)
			if op.Single && len(es) == 1 {
				err = l.AppendEntry(es[0])
			} else {
				err = l.AppendEntries(es)
			}
		case "truncate":
			err = l.Truncate(op.Index)
		case "compact":
			err = l.Compact(op.Index)
		case "discard":
			err = l.DiscardEntries(op.Index, op.Term)
		case "close_reopen", "kill_reopen":
			if err = l.Close(); err == nil {
				l, err = openLog(dir)
			}
		}
		if err != nil {
			say("OPERR %d %s: %v", i, op.Kind, err)
			return
		}
		say("E %d", i)
	}
}

// ---------------------------------------------------------------- parent side

// SysRun is the outcome of one helper execution.
type SysRun struct {
	Killed    bool
	Done      int // number of operations whose end was reported
	InFlight  int // index of the operation that had begun but not ended, or -1
	Ended     bool
	OpErr     string
	HelperErr string
}

var straceOK = -1 // -1 unknown, 0 no, 1 yes
var straceWhy string

// StraceAvailable probes once whether strace can inject a signal into a child here.
func StraceAvailable() (bool, string) {
	if straceOK >= 0 {
		return straceOK == 1, straceWhy
	}
	straceOK = 0
	p, err := exec.LookPath("strace")
	if err != nil {
		straceWhy = "strace not found"
		return false, straceWhy
	}
	cmd := exec.Command(p, "-f", "-qq", "-o", os.DevNull, "-e", "trace=write", "-e", "inject=write:signal=SIGKILL:when=1", "/bin/echo", "x")
	out, err := cmd.CombinedOutput()
	if ee, ok := err.(*exec.ExitError); ok {
		if ws, ok := ee.Sys().(syscall.WaitStatus); ok && (ws.Signaled() || ws.ExitStatus() == 128+9) && !bytes.Contains(out, []byte("x\n")) {
			straceOK = 1
			return true, ""
		}
	}
	straceWhy = fmt.Sprintf("strace probe did not kill the child (err=%v, output %q)", err, truncBytes(out, 200))
	return false, straceWhy
}

func truncBytes(b []byte, n int) string {
	if len(b) > n {
		b = b[:n]
	}
	return string(b)
}

// SysHarness runs helper processes for one script.
type SysHarness struct {
	Bin        string // the test binary
	HelperTest string // name of the helper test function
	Work       string // scratch directory (script file, traces)
	scriptFile string
}

func NewSysHarness(work, helperTest string, s SysScript) (*SysHarness, error) {
	bin, err := os.Executable()
	if err != nil {
		return nil, err
	}
	if err := os.MkdirAll(work, 0o777); err != nil {
		return nil, err
	}
	h := &SysHarness{Bin: bin, HelperTest: helperTest, Work: work, scriptFile: filepath.Join(work, "script.json")}
	b, _ := json.Marshal(s)
	if err := os.WriteFile(h.scriptFile, b, 0o644); err != nil {
		return nil, err
	}
	return h, nil
}

func (h *SysHarness) cmd(dir string, straceArgs []string) *exec.Cmd {
	args := append([]string{}, straceArgs...)
	args = append(args, h.Bin, "-test.run", "^"+h.HelperTest+"$", "-test.timeout", "60s")
	var c *exec.Cmd
	if len(straceArgs) > 0 {
		c = exec.Command("strace", args...)
	} else {
		c = exec.Command(args[0], args[1:]...)
	}
	c.Env = append(os.Environ(), "VERIF_SYSKILL_SCRIPT="+h.scriptFile, "VERIF_SYSKILL_DIR="+dir, "VERIF_SYSKILL_HELPER=1", "GOMAXPROCS=1", "VERIF_OUT=", "VERIF_JOURNAL=")
	return c
}

func parseProgress(out []byte) SysRun {
	r := SysRun{InFlight: -1}
	sc := bufio.NewScanner(bytes.NewReader(out))
	sc.Buffer(make([]byte, 1<<20), 1<<20)
	for sc.Scan() {
		line := sc.Text()
		switch {
		case strings.HasPrefix(line, "B "):
			r.InFlight, _ = strconv.Atoi(line[2:])
		case strings.HasPrefix(line, "E "):
			n, _ := strconv.Atoi(line[2:])
			r.Done = n + 1
			r.InFlight = -1
		case line == "END":
			r.Ended = true
		case strings.HasPrefix(line, "OPERR "):
			r.OpErr = line[6:]
		case strings.HasPrefix(line, "HELPER-ERROR"):
			r.HelperErr = line
		}
	}
	return r
}

var traceLine = regexp.MustCompile(`^(\d+)\s+([a-z_0-9]+)\(`)

// Points runs the script once under strace without injection and returns the crash points of
// the script thread after the MARK line, in program order.
func (h *SysHarness) Points(dir string) ([]KillPoint, SysRun, error) {
	tf := filepath.Join(h.Work, "trace.txt")
	defer os.Remove(tf)
	c := h.cmd(dir, []string{"-f", "-qq", "-o", tf, "-e", "trace=" + strings.Join(KillSyscalls, ",")})
	out, err := c.Output()
	run := parseProgress(out)
	if err != nil {
		return nil, run, fmt.Errorf("trace run: %v (%s)", err, truncBytes(out, 300))
	}
	f, err := os.Open(tf)
	if err != nil {
		return nil, run, err
	}
	defer f.Close()
	type ev struct{ tid, name string }
	var evs []ev
	markTid, markAt := "", -1
	sc := bufio.NewScanner(f)
	sc.Buffer(make([]byte, 4<<20), 4<<20)
	for sc.Scan() {
		line := sc.Text()
		m := traceLine.FindStringSubmatch(line)
		if m == nil {
			continue
		}
		evs = append(evs, ev{m[1], m[2]})
		if markAt < 0 && m[2] == "write" && strings.Contains(line, `"MARK\n"`) {
			markTid, markAt = m[1], len(evs)-1
		}
	}
	if markAt < 0 {
		return nil, run, fmt.Errorf("MARK not found in the trace")
	}
	counts := map[string]int{}
	var pts []KillPoint
	for i, e := range evs {
		if e.tid != markTid {
			continue
		}
		counts[e.name]++
		if i > markAt {
			pts = append(pts, KillPoint{e.name, counts[e.name]})
		}
	}
	return pts, run, nil
}

// Kill runs the script and kills the helper immediately before the given point.
func (h *SysHarness) Kill(dir string, p KillPoint) (SysRun, error) {
	c := h.cmd(dir, []string{"-f", "-qq", "-o", os.DevNull, "-e", "trace=" + p.Syscall, "-e", fmt.Sprintf("inject=%s:signal=SIGKILL:when=%d", p.Syscall, p.K)})
	var stdout bytes.Buffer
	c.Stdout = &stdout
	err := c.Start()
	if err != nil {
		return SysRun{}, err
	}
	done := make(chan error, 1)
	go func() { done <- c.Wait() }()
	select {
	case err = <-done:
	case <-time.After(120 * time.Second):
		_ = c.Process.Kill()
		<-done
		return SysRun{}, fmt.Errorf("helper timed out")
	}
	run := parseProgress(stdout.Bytes())
	if err != nil && !run.Ended {
		run.Killed = true
	}
	return run, nil
}

// ---------------------------------------------------------------- models

// SSTrajectory returns the model after 0..n operations (element i = after the first i operations).
type SSPoint struct {
	State  StateModel
	Latest *SnapModel
}

func SSTrajectory(ops []SSOp) []SSPoint {
	cur := SSPoint{}
	out := []SSPoint{cur}
	var open *SnapModel
	for _, op := range ops {
		switch op.Kind {
		case "setstate":
			cur.State = StateModel{op.Term, op.Vote}
		case "snap_new":
			if open == nil {
				open = &SnapModel{Index: op.Index, Term: op.Term, Conf: op.Conf}
			}
		case "snap_write":
			if open != nil {
				open.Data = append(open.Data, pattern(op.Len, op.Seed)...)
			}
		case "snap_close":
			if open != nil {
				cur.Latest = open
				open = nil
			}
		case "snap_discard", "reopen":
			open = nil
		}
		out = append(out, cur)
	}
	return out
}

// VerifySSAfterKill compares the directory left by a killed helper with the model: the state
// and the latest snapshot must be those after the completed operations or after the operation in flight.
func VerifySSAfterKill(c *SSCase, dir string, ops []SSOp, run SysRun, label string) error {
	tr := SSTrajectory(ops)
	if run.Done >= len(tr) {
		return fmt.Errorf("progress %d beyond the script", run.Done)
	}
	states := []StateModel{tr[run.Done].State}
	snaps := []*SnapModel{tr[run.Done].Latest}
	if run.InFlight >= 0 && run.InFlight+1 < len(tr) {
		states = append(states, tr[run.InFlight+1].State)
		snaps = append(snaps, tr[run.InFlight+1].Latest)
	}
	c.Closed = nil
	for _, p := range tr {
		if p.Latest != nil && (len(c.Closed) == 0 || c.Closed[len(c.Closed)-1] != p.Latest) {
			c.Closed = append(c.Closed, p.Latest)
		}
	}
	_, _, err := c.verify(dir, label, states, snaps)
	return err
}

// LogTrajectory returns the model after 0..n operations.
func LogTrajectory(ops []LogOp) []LogModel {
	cur := LogModel{}
	out := []LogModel{cur.clone()}
	for _, op := range ops {
		switch op.Kind {
		case "append":
			cur = cur.appendEnts(op.Ents)
		case "truncate":
			cur = cur.truncate(op.Index)
		case "compact":
			cur = cur.compact(op.Index)
		case "discard":
			cur = LogModel{BI: op.Index, BT: op.Term}
		}
		out = append(out, cur.clone())
	}
	return out
}

// VerifyLogAfterKill reopens the log left by a killed helper; its content must equal the model
// after the completed operations or after the operation in flight (an append in flight may also
// have stored a prefix of its entries), and the reopened log must keep working: a further append,
// close and reopen must give exactly model + that entry.
func VerifyLogAfterKill(dir string, ops []LogOp, run SysRun, label string) error {
	tr := LogTrajectory(ops)
	if run.Done >= len(tr) {
		return fmt.Errorf("progress %d beyond the script", run.Done)
	}
	accept := []LogModel{tr[run.Done]}
	if run.InFlight >= 0 && run.InFlight+1 < len(tr) {
		accept = append(accept, tr[run.InFlight+1])
		if op := ops[run.InFlight]; op.Kind == "append" {
			for k := 1; k < len(op.Ents); k++ {
				accept = append(accept, tr[run.InFlight].appendEnts(op.Ents[:k]))
			}
		}
	}
	l, err := openLog(dir)
	if err != nil {
		return &Violation{"log/reopen-error", fmt.Sprintf("%s: reopening the log failed: %v", label, err)}
	}
	var got *LogModel
	var diffs []string
	for i := range accept {
		d := compare(l, accept[i])
		if d == "" {
			got = &accept[i]
			break
		}
		diffs = append(diffs, d)
	}
	if got == nil {
		_ = l.Close()
		return &Violation{"log/wrong-content-after-crash", fmt.Sprintf("%s: the reopened log matches none of the %d acceptable states: %s", label, len(accept), strings.Join(diffs, " | "))}
	}
	// keeps working
	li, lt := got.Last()
	extra := Ent{Index: li + 1, Term: lt + 1, Type: 1, Data: []byte("after-recovery")}
	if err := l.AppendEntries(toEntries([]Ent{extra})); err != nil {
		_ = l.Close()
		return &Violation{"log/append-after-recovery-error", fmt.Sprintf("%s: %v", label, err)}
	}
	want := got.appendEnts([]Ent{extra})
	if d := compare(l, want); d != "" {
		_ = l.Close()
		return &Violation{"log/wrong-content-after-recovery-append", fmt.Sprintf("%s: %s", label, d)}
	}
	if err := l.Close(); err != nil {
		return &Violation{"log/close-error", fmt.Sprintf("%s: %v", label, err)}
	}
	l2, err := openLog(dir)
	if err != nil {
		return &Violation{"log/second-reopen-error", fmt.Sprintf("%s: second reopen (after one append on the recovered log) failed: %v", label, err)}
	}
	defer l2.Close()
	if d := compare(l2, want); d != "" {
		return &Violation{"log/wrong-content-after-second-reopen", fmt.Sprintf("%s: after recovery, one append, close and reopen: %s", label, d)}
	}
	return nil
}

// SamplePoints picks at most n points, always including the first and last, evenly by a stride
// derived from pick (a generated value), so that the choice is part of the generated case.
func SamplePoints(pts []KillPoint, n int, pick int) []KillPoint {
	if n <= 0 || len(pts) <= n {
		return pts
	}
	idx := map[int]bool{0: true, len(pts) - 1: true}
	step := float64(len(pts)) / float64(n)
	off := float64(pick%1000) / 1000 * step
	for i := 0; i < n; i++ {
		j := int(off + float64(i)*step)
		if j >= 0 && j < len(pts) {
			idx[j] = true
		}
	}
	var keys []int
	for k := range idx {
		keys = append(keys, k)
	}
	sort.Ints(keys)
	var out []KillPoint
	for _, k := range keys {
		out = append(out, pts[k])
	}
	return out
}
