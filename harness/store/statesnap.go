package store

import (
	"bytes"
	"fmt"
	"io"
	"os"
	"path/filepath"
	"sort"
	"strings"
	"syscall"

	"github.com/jmsadair/raft"
	"github.com/jmsadair/raft/logging"
)

// ---------------------------------------------------------------- C13: term/vote and snapshot storage

type SnapModel struct {
	Index uint64
	Term  uint64
	Conf  []byte
	Data  []byte
}

type StateModel struct {
	Term uint64
	Vote string
}

// SSOp is one literal step of a C13 sequence.
type SSOp struct {
	Kind    string `json:"kind"` // setstate | snap_new | snap_write | snap_close | snap_discard | snap_read | reopen
	Term    uint64 `json:"term,omitempty"`
	Vote    string `json:"vote,omitempty"`
	Index   uint64 `json:"index,omitempty"`
	Conf    []byte `json:"conf,omitempty"`
	Len     int    `json:"len,omitempty"`  // snap_write: number of bytes (content is a deterministic pattern)
	Seed    int    `json:"seed,omitempty"` // pattern seed
	CrashAt int    `json:"crash_at"`       // -1 none; else continue from image CrashAt (mod number of images)
}

type SSScript struct {
	Ops []SSOp `json:"ops"`
}

func pattern(n, seed int) []byte {
	b := make([]byte, n)
	for i := range b {
		b[i] = byte(i*31 + seed*7 + i/251)
	}
	return b
}

// tree is a directory image: path (relative) -> content; directories end in "/".
type tree map[string][]byte

func readTree(root string) (tree, error) {
	t := tree{}
	err := filepath.Walk(root, func(path string, info os.FileInfo, err error) error {
		if err != nil {
			return err
		}
		rel, _ := filepath.Rel(root, path)
		if rel == "." {
			return nil
		}
		if info.IsDir() {
			t[rel+"/"] = nil
			return nil
		}
		b, err := os.ReadFile(path)
		if err != nil {
			return err
		}
		t[rel] = b
		return nil
	})
	return t, err
}

func (t tree) clone() tree {
	c := tree{}
	for k, v := range t {
		c[k] = v
	}
	return c
}

func (t tree) write(root string) error {
	keys := make([]string, 0, len(t))
	for k := range t {
		keys = append(keys, k)
	}
	sort.Strings(keys)
	if err := os.MkdirAll(root, 0o777); err != nil {
		return err
	}
	for _, k := range keys {
		p := filepath.Join(root, k)
		if strings.HasSuffix(k, "/") {
			if err := os.MkdirAll(p, 0o777); err != nil {
				return err
			}
			continue
		}
		if err := os.MkdirAll(filepath.Dir(p), 0o777); err != nil {
			return err
		}
		if err := os.WriteFile(p, t[k], 0o666); err != nil {
			return err
		}
	}
	return nil
}

func (t tree) describe() string {
	keys := make([]string, 0, len(t))
	for k := range t {
		keys = append(keys, k)
	}
	sort.Strings(keys)
	var sb strings.Builder
	for _, k := range keys {
		if strings.HasSuffix(k, "/") {
			sb.WriteString(k + " ")
		} else {
			fmt.Fprintf(&sb, "%s:%dB ", k, len(t[k]))
		}
	}
	return sb.String()
}

type ssImage struct {
	label  string
	files  tree
	states []StateModel // acceptable recovered (term, vote)
	snaps  []*SnapModel // acceptable "most recent snapshot" (nil entry = none)
	inside bool
}

// nullFSM is the state machine used when constructing a node over an image.
type nullFSM struct{ restored []byte }

func (f *nullFSM) Apply(*raft.Operation) interface{} { return nil }
func (f *nullFSM) Snapshot(io.Writer) error          { return nil }
func (f *nullFSM) Restore(r io.Reader) error {
	b, err := io.ReadAll(r)
	f.restored = b
	return err
}
func (f *nullFSM) NeedSnapshot(int) bool { return false }

// SSCase runs one C13 script.
type SSCase struct {
	Base    string
	AllCuts bool
	dirSeq  int
	data    string

	st    raft.StateStorage
	ss    raft.SnapshotStorage
	open  raft.SnapshotFile // snapshot being written (one writer at a time)
	openM *SnapModel

	State  StateModel
	Closed []*SnapModel

	Images, InsideImages, Continues int
	NonTrivial                      bool
	Labels                          map[string]int
	codec                           raft.Transport
}

func NewSSCase(base string) (*SSCase, error) {
	c := &SSCase{Base: base, Labels: map[string]int{}}
	c.data = c.fresh()
	if err := os.MkdirAll(c.data, 0o777); err != nil {
		return nil, err
	}
	tr, err := raft.NewTransport("127.0.0.1:0")
	if err != nil {
		return nil, err
	}
	c.codec = tr
	if err := c.reopen(); err != nil {
		return nil, err
	}
	return c, nil
}

func (c *SSCase) fresh() string {
	c.dirSeq++
	return filepath.Join(c.Base, fmt.Sprintf("s%d", c.dirSeq))
}

func (c *SSCase) Close() {
	if c.open != nil {
		_ = c.open.Discard()
	}
}

func (c *SSCase) reopen() error {
	st, err := raft.NewStateStorage(c.data)
	if err != nil {
		return &Violation{"state/constructor-error", err.Error()}
	}
	ss, err := raft.NewSnapshotStorage(c.data)
	if err != nil {
		return &Violation{"snapshot/constructor-error", err.Error()}
	}
	c.st, c.ss = st, ss
	return nil
}

func (c *SSCase) latest() *SnapModel {
	if len(c.Closed) == 0 {
		return nil
	}
	return c.Closed[len(c.Closed)-1]
}

// verify opens dir with the real constructors and compares with the acceptable outcomes.
func (c *SSCase) verify(dp, label string, states []StateModel, snaps []*SnapModel) (int, int, error) {
	st, err := raft.NewStateStorage(dp)
	if err != nil {
		return 0, 0, &Violation{"state/constructor-error", fmt.Sprintf("image %q: NewStateStorage: %v", label, err)}
	}
	term, vote, err := st.State()
	if err != nil {
		return 0, 0, &Violation{"state/read-error", fmt.Sprintf("image %q: State(): %v", label, err)}
	}
	si := -1
	for i, s := range states {
		if s.Term == term && s.Vote == vote {
			si = i
			break
		}
	}
	if si < 0 {
		return 0, 0, &Violation{"state/wrong-value", fmt.Sprintf("image %q: State() = (%d,%q), acceptable: %+v", label, term, vote, states)}
	}
	ss, err := raft.NewSnapshotStorage(dp)
	if err != nil {
		return 0, 0, &Violation{"snapshot/constructor-error", fmt.Sprintf("image %q: NewSnapshotStorage failed on the first attempt: %v", label, err)}
	}
	f, err := ss.SnapshotFile()
	if err != nil {
		return 0, 0, &Violation{"snapshot/read-error", fmt.Sprintf("image %q: SnapshotFile(): %v", label, err)}
	}
	var got *SnapModel
	if f != nil {
		b, rerr := io.ReadAll(f)
		md := f.Metadata()
		_ = f.Close()
		if rerr != nil {
			return 0, 0, &Violation{"snapshot/read-error", fmt.Sprintf("image %q: reading the snapshot: %v", label, rerr)}
		}
		got = &SnapModel{Index: md.LastIncludedIndex, Term: md.LastIncludedTerm, Conf: md.Configuration, Data: b}
	}
	ni := -1
	for i, s := range snaps {
		if (s == nil) != (got == nil) {
			continue
		}
		if s == nil || (s.Index == got.Index && s.Term == got.Term && bytes.Equal(s.Conf, got.Conf) && bytes.Equal(s.Data, got.Data)) {
			ni = i
			break
		}
	}
	if ni < 0 {
		d := "none"
		if got != nil {
			d = fmt.Sprintf("(index %d, term %d, %d bytes)", got.Index, got.Term, len(got.Data))
		}
		var want []string
		for _, s := range snaps {
			if s == nil {
				want = append(want, "none")
			} else {
				want = append(want, fmt.Sprintf("(index %d, term %d, %d bytes)", s.Index, s.Term, len(s.Data)))
			}
		}
		sig := "snapshot/wrong-snapshot"
		if got != nil {
			partial := true
			for _, s := range c.Closed {
				if s.Index == got.Index && bytes.Equal(s.Data, got.Data) {
					partial = false
				}
			}
			if partial {
				sig = "snapshot/partial-snapshot-visible"
			} else {
				sig = "snapshot/not-the-most-recent"
			}
		}
		return 0, 0, &Violation{sig, fmt.Sprintf("image %q: SnapshotFile() returned %s, acceptable: %v (%d closed snapshots)", label, d, want, len(c.Closed))}
	}
	// a node can be constructed over the directory on the first attempt
	if _, err := raft.NewLog(dp); err != nil {
		return 0, 0, &Violation{"log/constructor-error", fmt.Sprintf("image %q: NewLog: %v", label, err)}
	}
	fsm := &nullFSM{}
	if _, err := raft.NewRaft("n1", "127.0.0.1:0", fsm, dp, raft.WithTransport(c.codec), raft.WithLogLevel(logging.Fatal)); err != nil {
		return 0, 0, &Violation{"node/constructor-error", fmt.Sprintf("image %q: NewRaft over the directory: %v", label, err)}
	}
	if got != nil && !bytes.Equal(fsm.restored, got.Data) {
		return 0, 0, &Violation{"node/restored-bytes-differ", fmt.Sprintf("image %q: NewRaft restored %d bytes, the snapshot has %d", label, len(fsm.restored), len(got.Data))}
	}
	return si, ni, nil
}

func (c *SSCase) checkImage(img ssImage, keep bool) (int, int, string, error) {
	c.Images++
	if img.inside {
		c.InsideImages++
	}
	dp := c.fresh()
	if err := img.files.write(dp); err != nil {
		return 0, 0, "", err
	}
	if !keep {
		defer os.RemoveAll(dp)
	}
	si, ni, err := c.verify(dp, img.label+" ["+img.files.describe()+"]", img.states, img.snaps)
	if err != nil {
		return 0, 0, "", err
	}
	if keep {
		// rebuild the image untouched (the constructors above cleaned temporary files)
		_ = os.RemoveAll(dp)
		if err := img.files.write(dp); err != nil {
			return 0, 0, "", err
		}
	}
	return si, ni, dp, nil
}

func inode(path string) uint64 {
	fi, err := os.Stat(path)
	if err != nil {
		return 0
	}
	if st, ok := fi.Sys().(*syscall.Stat_t); ok {
		return st.Ino
	}
	return 0
}

func cutsOf(n int, all bool) []int {
	if all || n <= 16 {
		c := make([]int, n+1)
		for i := range c {
			c[i] = i
		}
		return c
	}
	set := map[int]bool{0: true, 1: true, 3: true, 4: true, 5: true, n / 2: true, n - 1: true, n: true}
	var c []int
	for k := range set {
		if k >= 0 && k <= n {
			c = append(c, k)
		}
	}
	sort.Ints(c)
	return c
}

// diffTrees returns added, removed and changed paths.
func diffTrees(a, b tree) (added, removed, changed []string) {
	for k := range b {
		if _, ok := a[k]; !ok {
			added = append(added, k)
		} else if !bytes.Equal(a[k], b[k]) {
			changed = append(changed, k)
		}
	}
	for k := range a {
		if _, ok := b[k]; !ok {
			removed = append(removed, k)
		}
	}
	sort.Strings(added)
	sort.Strings(removed)
	sort.Strings(changed)
	return
}

// Step executes one literal op with all its crash images.
func (c *SSCase) Step(op SSOp) error {
	c.Labels["op:"+op.Kind]++
	switch op.Kind {
	case "reopen":
		if c.open != nil {
			// the writer dies with the process; its temporary directory stays behind
			c.open = nil
			c.openM = nil
			c.Labels["reopen-with-open-writer"]++
		}
		if err := c.reopen(); err != nil {
			return err
		}
		_, _, err := c.verify(c.data, "reopen in place", []StateModel{c.State}, []*SnapModel{c.latest()})
		return err
	case "snap_read":
		_, _, err := c.verifyLive()
		return err
	case "snap_bulk":
		// op.Len complete snapshots in a row (no crash images), then a reopen: many snapshots per directory
		if c.open != nil {
			return nil
		}
		for i := 0; i < op.Len; i++ {
			m := &SnapModel{Index: op.Index + uint64(i), Term: op.Term, Conf: op.Conf, Data: pattern(10+i, op.Seed+i)}
			f, err := c.ss.NewSnapshotFile(m.Index, m.Term, m.Conf)
			if err != nil {
				return &Violation{"snapshot/op-error", "NewSnapshotFile: " + err.Error()}
			}
			if _, err := f.Write(m.Data); err != nil {
				return &Violation{"snapshot/op-error", "Write: " + err.Error()}
			}
			if err := f.Close(); err != nil {
				return &Violation{"snapshot/op-error", "Close: " + err.Error()}
			}
			c.Closed = append(c.Closed, m)
			if _, _, err := c.verifyLive(); err != nil {
				return err
			}
		}
		if err := c.reopen(); err != nil {
			return err
		}
		_, _, err := c.verify(c.data, "reopen after bulk snapshots", []StateModel{c.State}, []*SnapModel{c.latest()})
		return err
	}
	before, err := readTree(c.data)
	if err != nil {
		return err
	}
	inoBefore := inode(filepath.Join(c.data, "state", "state.bin"))
	sBefore := c.State
	latestBefore := c.latest()
	var imgs []ssImage
	switch op.Kind {
	case "setstate":
		if err := c.st.SetState(op.Term, op.Vote); err != nil {
			return &Violation{"state/op-error", err.Error()}
		}
		c.State = StateModel{op.Term, op.Vote}
	case "snap_new":
		if c.open != nil {
			return nil
		}
		f, err := c.ss.NewSnapshotFile(op.Index, op.Term, op.Conf)
		if err != nil {
			return &Violation{"snapshot/op-error", "NewSnapshotFile: " + err.Error()}
		}
		c.open = f
		c.openM = &SnapModel{Index: op.Index, Term: op.Term, Conf: op.Conf}
	case "snap_write":
		if c.open == nil {
			return nil
		}
		p := pattern(op.Len, op.Seed)
		if _, err := c.open.Write(p); err != nil {
			return &Violation{"snapshot/op-error", "Write: " + err.Error()}
		}
		c.openM.Data = append(c.openM.Data, p...)
	case "snap_close":
		if c.open == nil {
			return nil
		}
		if err := c.open.Close(); err != nil {
			return &Violation{"snapshot/op-error", "Close: " + err.Error()}
		}
		c.Closed = append(c.Closed, c.openM)
		c.open, c.openM = nil, nil
	case "snap_discard":
		if c.open == nil {
			return nil
		}
		if err := c.open.Discard(); err != nil {
			return &Violation{"snapshot/op-error", "Discard: " + err.Error()}
		}
		c.open, c.openM = nil, nil
	default:
		return fmt.Errorf("unknown op %q", op.Kind)
	}
	after, err := readTree(c.data)
	if err != nil {
		return err
	}
	added, removed, changed := diffTrees(before, after)
	states := []StateModel{sBefore}
	snapsBefore := []*SnapModel{latestBefore}
	switch op.Kind {
	case "setstate":
		// temp file written next to state.bin, then renamed over it
		if len(removed) != 0 || len(added)+len(changed) > 1 {
			return &ModelMismatch{fmt.Sprintf("SetState delta: added %v removed %v changed %v", added, removed, changed)}
		}
		target := filepath.Join("state", "state.bin")
		final := after[target]
		if ino := inode(filepath.Join(c.data, target)); ino != 0 && ino == inoBefore {
			// the file was rewritten in place (same inode): a crash can leave it truncated or
			// holding any prefix of the new content
			c.Labels["setstate-in-place"]++
			for _, cut := range cutsOf(len(final), c.AllCuts) {
				f := before.clone()
				f[target] = final[:cut]
				acc := []StateModel{sBefore, c.State}
				imgs = append(imgs, ssImage{label: fmt.Sprintf("setstate in place %d/%d", cut, len(final)), files: f, states: acc, snaps: snapsBefore, inside: cut < len(final)})
			}
		}
		for _, cut := range cutsOf(len(final), c.AllCuts) {
			f := before.clone()
			f[filepath.Join("state", "tmp-state-crash")] = final[:cut]
			imgs = append(imgs, ssImage{label: fmt.Sprintf("setstate temp %d/%d", cut, len(final)), files: f, states: states, snaps: snapsBefore, inside: true})
		}
		imgs = append(imgs, ssImage{label: "setstate after", files: after, states: []StateModel{c.State}, snaps: snapsBefore})
	case "snap_new":
		// mkdir tmp dir; create data file; create metadata file; write metadata
		var dir, data, meta string
		for _, a := range added {
			switch {
			case strings.HasSuffix(a, "/"):
				dir = a
			case strings.HasSuffix(a, "metadata.json"):
				meta = a
			default:
				data = a
			}
		}
		if dir == "" || data == "" || meta == "" || len(added) != 3 || len(removed)+len(changed) != 0 {
			return &ModelMismatch{fmt.Sprintf("NewSnapshotFile delta: added %v removed %v changed %v", added, removed, changed)}
		}
		f1 := before.clone()
		f1[dir] = nil
		imgs = append(imgs, ssImage{label: "snap_new: temp dir created", files: f1, states: states, snaps: snapsBefore, inside: true})
		f2 := f1.clone()
		f2[data] = []byte{}
		imgs = append(imgs, ssImage{label: "snap_new: data file created", files: f2, states: states, snaps: snapsBefore, inside: true})
		for _, cut := range cutsOf(len(after[meta]), c.AllCuts) {
			f3 := f2.clone()
			f3[meta] = after[meta][:cut]
			imgs = append(imgs, ssImage{label: fmt.Sprintf("snap_new: metadata %d/%d", cut, len(after[meta])), files: f3, states: states, snaps: snapsBefore, inside: true})
		}
	case "snap_write":
		if len(added)+len(removed) != 0 || len(changed) > 1 {
			return &ModelMismatch{fmt.Sprintf("Write delta: added %v removed %v changed %v", added, removed, changed)}
		}
		if len(changed) == 1 {
			k := changed[0]
			if !bytes.HasPrefix(after[k], before[k]) {
				return &ModelMismatch{"snapshot write did not extend the data file"}
			}
			delta := after[k][len(before[k]):]
			for _, cut := range cutsOf(len(delta), c.AllCuts) {
				f := before.clone()
				f[k] = after[k][:len(before[k])+cut]
				imgs = append(imgs, ssImage{label: fmt.Sprintf("snap_write %d/%d", cut, len(delta)), files: f, states: states, snaps: snapsBefore, inside: true})
			}
		} else {
			imgs = append(imgs, ssImage{label: "snap_write (empty)", files: after, states: states, snaps: snapsBefore, inside: true})
		}
	case "snap_close":
		// rename of the temporary directory
		imgs = append(imgs, ssImage{label: "snap_close: before rename", files: before, states: states, snaps: snapsBefore, inside: true})
		imgs = append(imgs, ssImage{label: "snap_close: after rename", files: after, states: states, snaps: []*SnapModel{c.latest()}})
	case "snap_discard":
		// files and directory removed in some order
		var files []string
		dir := ""
		for _, r := range removed {
			if strings.HasSuffix(r, "/") {
				dir = r
			} else {
				files = append(files, r)
			}
		}
		if len(added)+len(changed) != 0 || dir == "" {
			return &ModelMismatch{fmt.Sprintf("Discard delta: added %v removed %v changed %v", added, removed, changed)}
		}
		for mask := 0; mask < 1<<len(files); mask++ {
			f := after.clone()
			f[dir] = nil
			for i, p := range files {
				if mask&(1<<i) != 0 {
					f[p] = before[p]
				}
			}
			imgs = append(imgs, ssImage{label: fmt.Sprintf("snap_discard: files kept mask %b", mask), files: f, states: states, snaps: snapsBefore, inside: true})
		}
		imgs = append(imgs, ssImage{label: "snap_discard after", files: after, states: states, snaps: snapsBefore})
	}
	cont := -1
	if op.CrashAt >= 0 && len(imgs) > 0 {
		cont = op.CrashAt % len(imgs)
	}
	for i, img := range imgs {
		keep := i == cont
		si, ni, dp, err := c.checkImage(img, keep)
		if err != nil {
			return err
		}
		if keep {
			// the process died at this image: continue on a fresh process over it
			c.Continues++
			if img.inside {
				c.NonTrivial = true
				c.Labels["continue-inside:"+op.Kind]++
			}
			c.data = dp
			c.State = img.states[si]
			if img.snaps[ni] != c.latest() {
				// the in-flight close did not happen
				if len(c.Closed) > 0 && img.snaps[ni] == latestBefore && c.latest() != latestBefore {
					c.Closed = c.Closed[:len(c.Closed)-1]
				}
			}
			c.open, c.openM = nil, nil
			if err := c.reopen(); err != nil {
				return err
			}
			if _, _, err := c.verify(c.data, "continued image", []StateModel{c.State}, []*SnapModel{c.latest()}); err != nil {
				return err
			}
		}
	}
	if _, _, err := c.verifyLive(); err != nil {
		return err
	}
	return nil
}

// verifyLive checks the live storages (no reopen) against the model.
func (c *SSCase) verifyLive() (int, int, error) {
	term, vote, err := c.st.State()
	if err != nil {
		return 0, 0, &Violation{"state/read-error", "State(): " + err.Error()}
	}
	if term != c.State.Term || vote != c.State.Vote {
		return 0, 0, &Violation{"state/wrong-value", fmt.Sprintf("live State() = (%d,%q), model (%d,%q)", term, vote, c.State.Term, c.State.Vote)}
	}
	f, err := c.ss.SnapshotFile()
	if err != nil {
		return 0, 0, &Violation{"snapshot/read-error", "live SnapshotFile(): " + err.Error()}
	}
	want := c.latest()
	if (f == nil) != (want == nil) {
		return 0, 0, &Violation{"snapshot/wrong-snapshot", fmt.Sprintf("live SnapshotFile() nil=%v, model has snapshot=%v", f == nil, want != nil)}
	}
	if f != nil {
		b, rerr := io.ReadAll(f)
		md := f.Metadata()
		_ = f.Close()
		if rerr != nil {
			return 0, 0, &Violation{"snapshot/read-error", rerr.Error()}
		}
		if md.LastIncludedIndex != want.Index || md.LastIncludedTerm != want.Term || !bytes.Equal(md.Configuration, want.Conf) || !bytes.Equal(b, want.Data) {
			sig := "snapshot/wrong-snapshot"
			for _, s := range c.Closed {
				if s.Index == md.LastIncludedIndex && bytes.Equal(s.Data, b) {
					sig = "snapshot/not-the-most-recent"
				}
			}
			return 0, 0, &Violation{sig, fmt.Sprintf("live SnapshotFile() returned (index %d, term %d, %d bytes) but the most recent closed snapshot is (index %d, term %d, %d bytes); %d snapshots closed so far",
				md.LastIncludedIndex, md.LastIncludedTerm, len(b), want.Index, want.Term, len(want.Data), len(c.Closed))}
		}
	}
	return 0, 0, nil
}
