#!/usr/bin/env python3
"""Regenerates MANIFEST.json from checks_config.py (claimed checks) and the list of
properties (unclaimed ones go to not_applicable with the reason given in NOT_CLAIMED)."""
import json, os, sys
ROOT = os.path.dirname(os.path.abspath(__file__))
sys.path.insert(0, ROOT)
from checks_config import PROPS, MANIFEST_TEXT, NOT_CLAIMED, HOOK_COMMITS

ids = [json.loads(l)["id"] for l in open(os.path.join(ROOT, "properties.jsonl"))]
baseline = json.load(open("/root/.vp/BASELINE.json"))["cmd"] if os.path.exists("/root/.vp/BASELINE.json") else "cd /repo && go test -mod=mod -vet=off -count=1 -timeout 25m ./..."
m = {
    "version": 1,
    "setup_cmd": "./check --setup",
    "hooks": {
        "guard": "verif",
        "enable": "-tags verif (the harness is built with the tag; no guarded source exists in /repo unless listed in source_commits)",
        "baseline_off_cmd": "cd /repo && go test -mod=mod -json -vet=off -count=1 -timeout 25m ./...",
        "source_commits": HOOK_COMMITS,
        "add_only": True,
    },
    "engines": [
        {"name": "E-SIM", "path": "harness/sim", "serves_properties": [p for p in ids if PROPS.get(p, {}).get("engine", "").startswith("E-SIM")],
         "kind_free_text": "virtual-time (testing/synctest) cluster simulator around the real node code with real file storage; rapid-generated schedules, faults and crash points; invariant oracles over the recorded history"},
        {"name": "E-NODE", "path": "harness/props", "serves_properties": [p for p in ids if PROPS.get(p, {}).get("engine", "").startswith("E-NODE")],
         "kind_free_text": "one real node driven by rapid-generated request sequences against reference models"},
        {"name": "E-STORE", "path": "harness/store", "serves_properties": [p for p in ids if PROPS.get(p, {}).get("engine", "").startswith("E-STORE")],
         "kind_free_text": "model-based rapid state machine over the storage API with crash images derived from observed file deltas"},
        {"name": "E-CODEC", "path": "harness/props", "serves_properties": [p for p in ids if PROPS.get(p, {}).get("engine", "").startswith("E-CODEC")],
         "kind_free_text": "round trips through the bundled gRPC transport and storage encoders on generated values"},
        {"name": "E-RACE", "path": "harness/props", "serves_properties": [p for p in ids if PROPS.get(p, {}).get("engine", "").startswith("E-RACE")],
         "kind_free_text": "generated concurrent API workloads under the Go race detector"},
    ],
    "checks": [],
    "not_applicable": [],
    "notes": "All checks are property-based tests (pgregory.net/rapid v1.3.0; native go fuzzing in some thorough tiers) run by ./check; see DESIGN.md.",
}
for p in ids:
    if p in PROPS:
        c = PROPS[p]
        t = MANIFEST_TEXT[p]
        m["checks"].append({
            "property_id": p,
            "quick_cmd": "./check %s --tier quick" % p,
            "thorough_cmd": "./check %s --tier thorough" % p,
            "evidence_file": "evidence/%s.json" % p,
            "replay_cmd_template": "./check %s --replay {path}" % p,
            "engine": c.get("engine", ""),
            "level_claimed": {"category": c["level"], "text": t["level_text"], "design_ref": t.get("design_ref", "DESIGN.md section 3, " + p)},
            "level_note": t["level_note"],
            "technique": t["technique"],
        })
    else:
        m["not_applicable"].append({"property_id": p, "reason": NOT_CLAIMED.get(p, "check not built yet in this session; see DESIGN.md section 3 for the planned property-based check")})
json.dump(m, open(os.path.join(ROOT, "MANIFEST.json"), "w"), indent=1)
print("MANIFEST.json: %d checks, %d not claimed" % (len(m["checks"]), len(m["not_applicable"])))
