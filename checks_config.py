"""Per-property configuration of the driver (tests, shards, budgets, level, assumptions)."""

STORE_ASSUMPTIONS = [
    "process-crash model: a prefix of the bytes/steps of the in-flight call survives; loss or reordering of un-synced data on power failure is not explored",
    "crash images are derived from the observed before/after directory contents of each call (checked on every call; a delta of unexpected shape is reported as inconclusive, not as a verdict)",
    "what is on disk is defined as what the real constructors recover from a copy of the directory",
]

SIM_ASSUMPTIONS = [
    "the real node code runs unmodified inside a testing/synctest bubble (Go 1.26.8): time is virtual, the harness owns message delivery, loss, duplication, delay, partitions, crashes and restarts; interleavings inside one reaction are left to the Go scheduler (GOMAXPROCS=1)",
    "storage is the bundled file-backed implementation behind recording wrappers; a crash is a process crash at an instant between two storage calls (directory image taken at that instant), not a power failure",
    "verdicts are taken from the recorded history by oracles that are pure functions of it; replay re-executes the saved script best-effort",
    "exploration only: absence of a violation in the generated schedules is not a proof",
]


def sim(test, quick, thorough, **kw):
    d = {"test": "Test" + test, "corpus_test": "TestCorpus" + test, "level": "exploration", "engine": "E-SIM", "gomaxprocs": 1,
         "tiers": {"quick": {"shards": 16, "cases": quick, "timeout_s": 1500}, "thorough": {"shards": 16, "cases": thorough, "timeout_s": 10800}},
         "assumptions": SIM_ASSUMPTIONS}
    d.update(kw)
    return d


NODE_ASSUMPTIONS = [
    "one real node inside a testing/synctest bubble, persistent state seeded through the real storage API before NewRaft (the path a restart takes); peers exist only as injected requests",
    "requests are generated from a consistent world (sender logs satisfy Log Matching with, and contain the committed prefix of, the receiver's log) unless the property quantifies over arbitrary values",
    "the reference models are written from the Raft paper and the property text, not from raft.go",
    "the cluster-schedule part samples schedules; bounded domains are sampled randomly, not enumerated, unless the evidence says exhaustive",
]


def node(tests, quick, thorough, **kw):
    d = {"test": "(" + "|".join(tests) + ")", "corpus_test": "TestCorpus" + tests[0][4:], "level": "exploration", "engine": "E-NODE+E-SIM", "gomaxprocs": 1,
         "tiers": {"quick": {"shards": 16, "cases": quick, "timeout_s": 1500}, "thorough": {"shards": 16, "cases": thorough, "timeout_s": 10800}},
         "assumptions": NODE_ASSUMPTIONS + SIM_ASSUMPTIONS[:3]}
    d.update(kw)
    return d


PROPS = {
    "C06": node(["TestC06", "TestC06Sim"], 1000, 30000),
    "C08": node(["TestC08", "TestC08Sim"], 1000, 30000),
    "C01": sim("C01", 1500, 40000),
    "C02": sim("C02", 1000, 30000),
    "C03": sim("C03", 1500, 40000),
    "C04": sim("C04", 800, 20000),
    "C05": sim("C05", 600, 20000),
    "C07": sim("C07", 1000, 30000),
    "C16": sim("C16", 500, 15000),
    "C17": sim("C17", 800, 20000),
    "C18": sim("C18", 500, 15000),
    "C09": sim("C09", 600, 15000),
    "C10": sim("C10", 500, 15000),
    "C14": sim("C14", 500, 12000),
    "C15": sim("C15", 300, 8000),
    "C11": node(["TestC11", "TestC11Sim"], 500, 15000),
    "C13": {
        "test": "(TestC13|TestC13Syscall)", "corpus_test": "TestCorpusC13", "level": "fault_enumeration",
        "engine": "E-STORE",
        "tiers": {
            "quick": {"shards": 16, "cases": 120, "timeout_s": 900},
            "thorough": {"shards": 16, "cases": 400, "timeout_s": 10800},
        },
        "assumptions": STORE_ASSUMPTIONS + ["the snapshot storage is documented as not concurrency-safe: writers are generated one at a time",
                                            "whether a file is replaced by rename or rewritten in place is decided per call from the inode of the target (same inode => in-place prefixes are crash images too)"],
    },
    "C19": {
        "test": "(TestC19|TestC19Transfer)", "corpus_test": "", "level": "exploration", "engine": "E-CODEC",
        "tiers": {
            "quick": {"shards": 8, "cases": 3000, "timeout_s": 900},
            "thorough": {"shards": 16, "cases": 50000, "timeout_s": 7200},
        },
        "assumptions": ["round trips go through two instances of the bundled transport on loopback (real gRPC, real time)",
                        "nil and empty byte slices are equal on the wire (protobuf cannot distinguish them); LogEntry.Offset is storage-local and not compared",
                        "the end-to-end transfer uses real time with generous deadlines (8 s per transfer); it runs in shard 0 only"],
    },
    "C20": {
        "test": "(TestC20|TestC20Real)", "corpus_test": "", "level": "exploration", "engine": "E-RACE", "race": True,
        "tiers": {
            "quick": {"shards": 16, "cases": 60, "timeout_s": 1500},
            "thorough": {"shards": 16, "cases": 600, "timeout_s": 10800},
        },
        "assumptions": ["the Go race detector only sees accesses that were executed: absence of a report is evidence about the explored interleavings only",
                        "the simulator runs on all cores here (no GOMAXPROCS=1), so the schedule is not reproducible; a report is the reproducible unit",
                        "reports are attributed to the library only if the first non-runtime frame of both conflicting accesses is inside github.com/jmsadair/raft; a report involving harness code makes the run inconclusive"],
    },
    "C12": {
        "test": "(TestC12|TestC12Syscall)", "corpus_test": "TestCorpusC12", "level": "fault_enumeration",
        "engine": "E-STORE",
        "tiers": {
            "quick": {"shards": 16, "cases": 500, "timeout_s": 900},
            "thorough": {"shards": 16, "cases": 4000, "timeout_s": 10800},
        },
        "assumptions": STORE_ASSUMPTIONS,
    },
}

HOOK_COMMITS = []

NOT_CLAIMED = {}

def simtext(what, trusted="the simulator (network, virtual clock, crash images), the recording wrappers and the oracle are the trusted base; the schedule space is sampled, not covered"):
    return {"technique": "property-based testing: rapid-generated fault schedules on a virtual-time cluster simulator, invariant oracle over the recorded history",
            "level_text": what, "level_note": trusted}


MANIFEST_TEXT = {
    "C06": {"technique": "model-based property testing: rapid-generated AppendEntries sequences against a receiver-rule reference model on one real node, plus invariant monitors over generated cluster schedules",
            "level_text": "Inputs part: generated worlds (truth log, follower with conflicting tail / compacted prefix) and request sequences derived from legitimate sender states, including stale, duplicate, overlapping and partial-suffix requests and every leaderCommit; after each request the decision, response term, exact resulting log (read back from disk through the real log) and the commit-index bounds are compared with the reference model. Schedules part: pairwise Log Matching on the stored logs after every step of generated cluster runs, no truncation of committed entries, commit index monotone. Random sampling of the bounded domain, not its enumeration.",
            "level_note": "Trusted: the world generator's legitimacy rules (one leader per term, Leader Completeness), the reference model B1, the storage wrappers; for prev below a compacted boundary either answer is accepted (a node cannot verify an entry it no longer has)."},
    "C08": {"technique": "model-based property testing: rapid-generated RequestVote/term sequences with crashes at storage writes against voter constraints on one real node, plus the same constraints over generated cluster schedules",
            "level_text": "Inputs part: a seeded voter (or non-voter) receives generated RequestVote / AppendEntries / InstallSnapshot headers with terms around its own, time advances around the election timeout, crashes immediately before/after term/vote and log writes, graceful stops and restarts over the crash image; scenario templates make competing requests in one term likely. Oracle (across incarnations): terms never decrease in replies, Status and recovered state; at most one candidate per term receives a real vote (persisted votes and granted replies); grants respect the up-to-date restriction; a grant is preceded by the write of that vote; a prevote changes neither Status().Term nor the persisted (term, vote). Schedules part: the same constraints per node in the election-centred cluster campaigns of C02.",
            "level_note": "Trusted: the constraint model B2 (it does not predict whether a request is ignored for stickiness, only constrains what is granted), the crash-image mechanism, the recorder's ordering."},
    "C01": simtext("Randomised, pattern-biased exploration of message orders, losses, duplicates, late replies, partitions, crashes (arbitrary instants, storage boundaries and inside log appends) and restarts on real nodes in virtual time, with snapshots (armed and by threshold) so that lagging and diverged nodes are also repaired through InstallSnapshot; every application and every reported commit index is checked against a global index->(term,bytes) table after every step. Finds divergence when a generated schedule produces it; says nothing about schedules not generated."),
    "C02": simtext("Same simulator with election-centred patterns (scheduler-owned delivery of every vote message, duelling candidates, flaky links, crashes at term/vote writes); per-term uniqueness of leaders is checked on Status() at every quiescence point and on every AppendEntries/InstallSnapshot request sent."),
    "C03": simtext("Concurrent generated clients against the simulator; the invoke/return history is checked against the authoritative applied order (bytes, position, result, at-most-once, real-time order). Exploration of histories, not a proof of linearizability for all histories."),
    "C04": simtext("Schedules with kills immediately before/after generated storage operations, all-node crashes and majority-only restarts; at every first application and acknowledgement each voter's on-disk log (crash image for dead nodes) is read back through the real constructors and a strict majority must hold the entry; recovered logs must equal what was stored."),
    "C05": simtext("Schedules with unbounded message delay built around a deposed-but-unaware leader (hold-partitions, old replies released first, leader left with non-voters, reads at freshly elected leaders after whole-cluster restarts, slow state machines) with concurrent writers and linearizable readers; a successful read must reflect every write acknowledged before its invocation (recorder order) and reads must not go backwards."),
    "C16": simtext("Steady state first (leader L, everybody in its term, drained network = T0), (optionally after up to two earlier leader changes), then only nodes outside a drawn majority of L - a strict minority of voters, the non-voter, a voter removed through RemoveServer that keeps running - misbehave: symmetric and one-directional isolation (lost or held messages) for 0-20 election timeouts, rejoin at any instant, crash/stop/restart, late and duplicated messages, across randomised election timers, while links inside the majority have hiccups shorter than half an election timeout (prompt contact by the library's own rule); from T0 to the end L must report leader state in the same term and every majority node that term. Histories in which a minority node already carried a higher term before T0 are outside the property's precondition and are not generated."),
    "C18": simtext("Raw public-API call sequences (lifecycle calls on the same instance in any order, Bootstrap variants, NewRaft with invalid options/addresses, submissions of every operation type incl. an invalid one with nil/empty/1 MiB payloads and zero/negative/large timeouts, membership requests with existing/unknown/self/empty ids, Status/Configuration and rendering of every reachable state) interleaved with cluster activity so that calls hit every node state; panics are recovered per call, process death (goroutine panic, logger.Fatal) is seen by the driver through the shard's exit and the action journal, calls and futures are timed in virtual time against their bounds, Await must be idempotent, committed membership changes must resolve their futures, and a Stop() that does not return is reported as a hang."),
    "C17": simtext("Bounded-delay network (each message delivered within a drawn D or lost; LD + D < ET), perfect virtual clocks; lease-based reads at any node at any instant under partitions and leader changes; staleness oracle of C05 plus the necessary condition that a voting member answered the serving node within the preceding lease duration."),
    "C09": simtext("Membership schedules from 1-4 voters: add (non-voter/voter), promote, remove (including the leader) submitted to any node, back-to-back and around faults, new nodes started empty, partitions, crashes, restarts; C01/C02/C07 oracles stay on (configuration entries compared by decoded content) and three membership oracles are added: every leader was elected by itself plus granted votes of voters forming a strict majority of a configuration it reported, every first application/acknowledgement is on disk at a strict voter majority of a configuration in use, a successful membership future reports a committed configuration that contains the change."),
    "C10": simtext("Snapshot schedules (armed by the schedule or by a log-size threshold on any node, slow Apply/Snapshot/Restore calls, lagging followers, crashes after a snapshot became visible, payloads of 0 B to more than three chunks); every snapshot file is intercepted on Close, decoded and compared with the authoritative applied order up to its label (nothing later, nothing missing), label term and configuration are checked, and every state machine instance is checked for duplicate or skipped applications after restores. The known finding F12 (mixed chunks) is matched by its mechanism and the search continues behind it."),
    "C11": {"technique": "model-based property testing: rapid-generated InstallSnapshot chunk sequences with AppendEntries/RequestVote probes against a full-log reference twin on one real node, plus monitors over generated cluster schedules",
            "level_text": "Inputs part: a seeded follower (C06 world), two sender snapshots with drawn labels, sizes and chunking, up to 8 requests over their chunks in any order with duplicates and lower/equal/higher terms, interleaved with AppendEntries and RequestVote probes; applied/commit index must not decrease, committed entries beyond the label must survive, every snapshot file that becomes visible must equal a sender snapshot exactly, and probes at or above the boundary must be answered like a reference-model twin that holds the full log. Schedules part: the same monitors in snapshot-heavy cluster campaigns with leader changes during transfers.",
            "level_note": "Trusted: the world generator, the twin model (below the boundary only 'rejected, or accepted in agreement with the sender' is required), the storage wrappers' byte tee. Chunks are always genuine (offset, bytes) pairs of a sender file."},
    "C14": simtext("Snapshot-enabled cluster schedules in which generated nodes are killed immediately before or after the k-th storage operation from now - or, for a log append, inside it (torn tail; such nodes are restarted twice with appends in between) - (every wrapped operation of log, term/vote and snapshot storage is a candidate; evidence lists the operations and callers actually hit) and restarted over the directory image of that instant; NewRaft/Start must succeed, the test binary must survive (FATAL/panic are process deaths seen by the driver), the C01/C02/C06/C07 monitors must stay green and restarted nodes must reach the leader's applied sequence in the fault-free suffix."),
    "C15": simtext("Bounded liveness in virtual time: after a generated fault prefix everything is healed and the stopped nodes are restarted, except a drawn 0-2 of the most recently stopped ones as far as every configuration in use keeps a running majority; within 40 election timeouts (extended once by 160 before a miss is reported) exactly one leader, agreeing voters, an acknowledged fresh write, no pending configuration entry and identical applied sequences on all running members are required; a miss is reported with the leader-to-member stall cycle. Not a proof of 'eventually'."),
    "C07": simtext("Schedules biased to elections between differing logs; at the first sign of leadership of each (node, term) the node's stored log is compared with the set of entries ever observed committed or applied; truncations of committed entries are flagged at any time."),
    "C13": {
        "test": "(TestC13|TestC13Syscall)", "corpus_test": "TestCorpusC13", "level": "fault_enumeration",
        "engine": "E-STORE",
        "tiers": {
            "quick": {"shards": 16, "cases": 120, "timeout_s": 900},
            "thorough": {"shards": 16, "cases": 400, "timeout_s": 10800},
        },
        "assumptions": STORE_ASSUMPTIONS + ["the snapshot storage is documented as not concurrency-safe: writers are generated one at a time",
                                            "whether a file is replaced by rename or rewritten in place is decided per call from the inode of the target (same inode => in-place prefixes are crash images too)"],
    },
    "C20": {
        "technique": "generated concurrent API workloads under the Go race detector",
        "level_text": "The simulator's snapshot-, membership- and lifecycle-heavy schedules are combined with generated workloads of 4-32 goroutines calling the public API concurrently, on a binary built with -race and running on all cores; every race-detector report is parsed, de-duplicated by the pair of source locations and attributed to the library or to the harness. Second engine: generated real-time workloads (2-6 client goroutines, snapshot threshold 3-25, payloads 0 B-5 KB, a node added and a follower stopped/started half-way) on 2-3 nodes that talk through the bundled gRPC transport, so that the request conversion code, which runs outside the node's mutex and which the simulator replaces, is executed under the detector too (quick: 3 cases per shard, thorough: 25). A sampling claim: only executed interleavings are seen.",
        "level_note": "Trusted: the race detector; the attribution rule (both first non-runtime frames inside the library); the harness itself must be race-free (any report touching harness code makes the run inconclusive rather than a verdict).",
    },
    "C19": {
        "technique": "property-based round-trip testing through the real gRPC transport and the storage encoders, plus an end-to-end snapshot transfer",
        "level_text": "Generated requests and responses of all three RPCs (all fields over 0/1/max uint64/random, empty/ASCII/multi-byte ids, 0-5000 entries of all three types incl. encoded configurations, nil/empty/1 B/64 KiB data, single entries and stored records up to 3 MiB) are sent between two bundled transports over loopback and compared field by field; log entries, term/vote, configurations (0-7 members) and snapshot metadata are written through the storage API and read back by a fresh instance; snapshots of 0 B to 5 MiB (thorough: 6 MiB, twelve sizes around the 32 KiB chunk size and the 4 MiB RPC limit) are transferred from a leader to an empty node over the bundled transport and compared byte by byte.",
        "level_note": "Trusted: rapid's generators, the comparison helpers; the transfer part depends on real time (generous deadlines) and free loopback ports.",
    },
    "C13": {
        "technique": "model-based property test (rapid state machine) with crash-image enumeration, plus generated scripts under real process kills between system calls (strace fault injection)",
        "level_text": "Generated sequences of SetState / NewSnapshotFile+writes+Close|Discard / SnapshotFile / reopen (up to 40 snapshots per directory) against an in-memory model; every crash image of every call, derived from the observed directory delta (temp file prefixes and rename for the state file; temp snapshot directory in each stage of creation, partial data, partial removal, before/after rename), is opened with NewStateStorage, NewSnapshotStorage, NewLog and NewRaft on the first attempt and compared with the model; sequences continue from crash images. Second engine: short generated scripts are executed by a helper process that strace kills immediately before the k-th file-system system call of the script thread (quick: 24 sampled points per script, thorough: every point); the directory the dead process leaves behind is opened the same way and must show the state after the completed calls or after the call in flight - this sees the real order of system calls (e.g. rename before the data is written), which derived images cannot.",
        "level_note": "Trusted: the image generator's process-crash model, checked against the observed delta of every call (unexpected shapes are reported as inconclusive); rename-vs-in-place is decided from the target's inode; one snapshot writer at a time (the storage is documented as not concurrency-safe).",
    },
    "C12": {
        "technique": "model-based property test (rapid state machine) with crash-image enumeration, plus generated scripts under real process kills between system calls (strace fault injection)",
        "level_text": "Generated op sequences against an in-memory reference model; for every mutating call every crash image derived from the observed file delta (quick: boundary-biased byte cuts; thorough: every byte cut for sequences up to 12 ops) is reopened with the real constructors and compared through the whole read API, then probed with append+reopen; sequences continue from crash images. Second engine: short generated scripts run in a helper process that strace kills immediately before the k-th file-system system call (quick: 24 sampled points per script, thorough: every point); the log left behind must reopen to the model after the completed calls or the call in flight (or a prefix of an in-flight batch), accept one more append, and reopen again to exactly that. Bounded enumeration of crash points per generated sequence, not a proof over all sequences. A kill keeps the page cache, so missing fsyncs are only covered by the derived images' prefix model.",
        "level_note": "Trusted: the image generator's process-crash model (prefix of the bytes written by the in-flight call; temp file + rename for compact/discard), validated on every call against the observed before/after directory contents; rapid's generator; the harness reference model.",
    },
}
