"""Per-property configuration of the driver (tests, shards, budgets, level, assumptions)."""

STORE_ASSUMPTIONS = [
    "process-crash model: a prefix of the bytes/steps of the in-flight call survives; loss or reordering of un-synced data on power failure is not explored",
    "crash images are derived from the observed before/after directory contents of each call (checked on every call; a delta of unexpected shape is reported as inconclusive, not as a verdict)",
    "what is on disk is defined as what the real constructors recover from a copy of the directory",
]

PROPS = {
    "C12": {
        "test": "TestC12", "corpus_test": "TestCorpusC12", "level": "fault_enumeration",
        "engine": "E-STORE",
        "tiers": {
            "quick": {"shards": 16, "cases": 500, "timeout_s": 900},
            "thorough": {"shards": 16, "cases": 6000, "timeout_s": 7200},
        },
        "assumptions": STORE_ASSUMPTIONS,
    },
}

HOOK_COMMITS = []

NOT_CLAIMED = {}

MANIFEST_TEXT = {
    "C12": {
        "technique": "model-based property test (rapid state machine) with crash-image enumeration",
        "level_text": "Generated op sequences against an in-memory reference model; for every mutating call every crash image derived from the observed file delta (quick: boundary-biased byte cuts; thorough: every byte cut for sequences up to 12 ops) is reopened with the real constructors and compared through the whole read API, then probed with append+reopen; sequences continue from crash images. Bounded enumeration of crash points per generated sequence, not a proof over all sequences.",
        "level_note": "Trusted: the image generator's process-crash model (prefix of the bytes written by the in-flight call; temp file + rename for compact/discard), validated on every call against the observed before/after directory contents; rapid's generator; the harness reference model.",
    },
}
