#!/bin/bash
# usage: mutate.sh <name> <python-snippet-file> -- builds a props test binary against a mutated /repo, then restores /repo.
# The snippet receives `s` (raft.go text) and must assign the mutated text to `s`.
set -e
name=$1; snippet=$2; file=${3:-raft.go}
export GOFLAGS=-mod=mod GOPROXY=off GOSUMDB=off GOTOOLCHAIN=local
cd /repo
python3 - "$snippet" "$file" <<'PY'
import sys
snippet, f = sys.argv[1], sys.argv[2]
s = open(f).read()
orig = s
g = {'s': s}
exec(open(snippet).read(), g)
s = g['s']
assert s != orig, "mutation did not change the file"
open(f, 'w').write(s)
PY
trap "git -C /repo checkout -- $file" EXIT
go build ./... 
cd /verif/harness && go1.26.8 test -c -tags verif -o /var/tmp/mut_$name.test ./props
echo built /var/tmp/mut_$name.test
