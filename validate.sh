#!/bin/sh
# validates MANIFEST.json and every evidence file against the schemas
python3-vt - <<'PY'
import json,jsonschema,glob,sys
ok=True
jsonschema.validate(json.load(open('/verif/MANIFEST.json')), json.load(open('/root/.vp/MANIFEST.schema.json')))
s=json.load(open('/root/.vp/EVIDENCE.schema.json'))
for f in sorted(glob.glob('/verif/evidence/*.json')):
    try:
        jsonschema.validate(json.load(open(f)), s)
    except Exception as e:
        ok=False; print('INVALID', f, str(e)[:300])
print('valid' if ok else 'INVALID')
sys.exit(0 if ok else 1)
PY
